//! C02: signature verification. (1) every signature-header shape of the specification's GEN set,
//! hand-encoded and run through Package::verify_signature with a recording implementation of the
//! public Verifying trait (scripted verdicts); (2) packages signed with the repository's real keys,
//! tampered bit by bit and by digest-consistent forgeries, verified with the real pgp Verifier.
use crate::c03::digest_state;
use crate::cfggen as gen_;
use crate::rawhdr::{self, *};
use crate::util::*;
use base64::Engine;
use rpm::signature::{AlgorithmType, Verifying};
use rpm::{Error, Package};
use serde_json::{Value, json};
use sha2::{Digest, Sha256};
use std::cell::RefCell;
use std::collections::HashMap;
use std::io::Read;

#[derive(Debug)]
struct Recorder {
    /// how a rejection is reported (the library cannot know which of these a verifier uses: key not found, no
    /// signature packet, ...)
    reject_kind: usize,
    script: HashMap<Vec<u8>, (String, bool)>,
    log: RefCell<Vec<(String, String, bool)>>, // tag, data token, accepted
}

impl Verifying for Recorder {
    type Signature = Vec<u8>;
    fn verify(&self, mut data: impl Read, signature: &[u8]) -> Result<(), Error> {
        let mut all = vec![];
        let _ = data.read_to_end(&mut all);
        let tok = hex(&Sha256::digest(&all));
        let (tag, accept) = self.script.get(signature).cloned().unwrap_or(("unknown".into(), false));
        self.log.borrow_mut().push((tag, tok, accept));
        if accept { Ok(()) } else {
            Err(match self.reject_kind % 3 {
                0 => Error::NoSignatureFound,
                1 => Error::KeyNotFoundError { key_ref: "0123456789abcdef".into() },
                _ => std::io::Error::new(std::io::ErrorKind::Other, "verifier unavailable").into(),
            })
        }
    }
    fn algorithm(&self) -> AlgorithmType {
        AlgorithmType::RSA
    }
}

fn s_v(s: &str) -> Value {
    json!([s.as_bytes()])
}
fn bin_v(b: &[u8]) -> Value {
    json!(b.iter().map(|x| json!([x])).collect::<Vec<_>>())
}

struct Carrier {
    hdr: Vec<u8>,
    payload: Vec<u8>,
}
fn carrier() -> Carrier {
    carrier_with((0..53u8).map(|i| i.wrapping_mul(7).wrapping_add(3)).collect())
}
/// ... and one without any payload bytes (a header-only file): every recorded digest still true
fn carrier_with(payload: Vec<u8>) -> Carrier {
    let h: Vec<(u32, u32, Value)> = vec![
        (1000, T_STRING, s_v("sigcarrier")), (1001, T_STRING, s_v("1")), (1002, T_STRING, s_v("1")),
        (1004, T_I18N, s_v("s")), (1022, T_STRING, s_v("noarch")),
        (5092, T_STRARR, s_v(&hex(&Sha256::digest(&payload)))), (5093, T_INT32, json!([8])),
    ];
    Carrier { hdr: encode_wellformed(63, &h), payload }
}

fn run_case(t: &mut Tracer, c: &Value, car: &Carrier, idx: usize, perm: usize) {
    let mut script: HashMap<Vec<u8>, (String, bool)> = HashMap::new();
    let verdict = |k: usize| c["verdicts"][k].as_str() == Some("accept");
    let sigbytes = |tag: &str, k: usize, short: bool| -> Vec<u8> {
        if short { format!("{}{}", &tag[..1], k).into_bytes() } else { format!("SIG-{tag}-{k}-0123456789abcdef").into_bytes() }
    };
    let mut s: Vec<(u32, u32, Value)> = vec![];
    let sha = hex(&Sha256::digest(&car.hdr));
    match c["digest"].as_str().unwrap() {
        "match" => s.push((273, T_STRING, s_v(&sha))),
        // a digest that differs: one digit changed, a proper prefix of the right one, or nothing at all
        "mismatch" => s.push((273, T_STRING, s_v(&match idx % 4 {
            0 | 1 => format!("{}{}", if sha.starts_with('0') { "1" } else { "0" }, &sha[1..]),
            2 => sha[..sha.len() - 1 - (idx / 4) % 40].to_string(),
            _ => String::new(),
        }))),
        _ => {}
    }
    let op = &c["openpgp"];
    match op["kind"].as_str().unwrap() {
        "absent" => {}
        "wrongtype" => s.push((278, T_BIN, bin_v(b"not-a-string-array"))),
        _ => {
            let mut items = vec![];
            for (k, e) in op["ents"].as_array().unwrap().iter().enumerate() {
                match e.as_str().unwrap() {
                    "bad" => items.push(json!("!!!*not base64*!!!".as_bytes())),
                    kind => {
                        let sb = sigbytes("OPENPGP", k, kind == "short");
                        script.insert(sb.clone(), ("OPENPGP".into(), verdict(k)));
                        items.push(json!(base64::engine::general_purpose::STANDARD.encode(&sb).as_bytes()));
                    }
                }
            }
            s.push((278, T_STRARR, Value::Array(items)));
        }
    }
    for (name, tag, vk) in [("rsa", 268u32, 2usize), ("dsa", 267, 3), ("pgp", 1002, 4)] {
        match c[name].as_str().unwrap() {
            "absent" => {}
            "wrongtype" => s.push((tag, T_STRING, s_v("sig-as-string"))),
            kind => {
                let sb = sigbytes(&name.to_uppercase(), vk, kind == "short");
                script.insert(sb.clone(), (name.to_uppercase(), verdict(vk)));
                s.push((tag, T_BIN, bin_v(&sb)));
            }
        }
    }
    let sig = encode_wellformed(62, &s);
    let bytes = rawhdr::assemble(&lead_bytes("sigcarrier"), &sig, &car.hdr, &car.payload, 0);
    // the index of the signature header need not be sorted to be read (and nothing signs it): same entries, another order
    let bytes = crate::c03::permute_sig_index(&bytes, perm).unwrap_or(bytes);
    let mut hp = car.hdr.clone();
    hp.extend_from_slice(&car.payload);
    let dstate = digest_state(&bytes);
    let digests_ok = dstate.as_ref().map(|d| ["md5", "sha1", "sha256", "payload"].iter().all(|k| d[*k] != "mismatch")).unwrap_or(false);
    t.emit(json!({"event":"Begin","ep_start":true,"case":idx,"perm":perm,"shape":c,"digests_ok":digests_ok,
                  "hdr_tok":hex(&Sha256::digest(&car.hdr)),"hdrpayload_tok":hex(&Sha256::digest(&hp))}));
    let pkg = match guarded(|| Package::parse(&mut &bytes[..])) {
        Ok(Ok(p)) => p,
        Ok(Err(_)) => { t.emit(json!({"event":"Return","case":idx,"result":"err","note":"parse error"})); return; }
        Err(m) => { t.emit(json!({"event":"Panic","case":idx,"msg":m})); return; }
    };
    let rec = Recorder { reject_kind: idx + perm, script, log: RefCell::new(vec![]) };
    let r = guarded(|| pkg.verify_signature(&rec));
    for (tag, tok, acc) in rec.log.borrow().iter() {
        t.emit(json!({"event":"Consult","case":idx,"tag":tag,"data":tok,"verdict": if *acc {"accept"} else {"reject"}}));
    }
    match r {
        Ok(Ok(())) => t.emit(json!({"event":"Return","case":idx,"result":"ok"})),
        Ok(Err(_)) => t.emit(json!({"event":"Return","case":idx,"result":"err"})),
        Err(m) => t.emit(json!({"event":"Panic","case":idx,"msg":m})),
    };
}

fn verify_real(bytes: &[u8], orig: &Package, key: &str) -> Value {
    let p = match guarded(|| Package::parse(&mut &bytes[..])) {
        Ok(Ok(p)) => p,
        Ok(Err(_)) => return json!({"parse_ok":false,"value_changed":false,"verify":"err"}),
        Err(_) => return json!({"parse_ok":false,"value_changed":false,"verify":"panic"}),
    };
    let changed = p.metadata.header != orig.metadata.header || p.content != orig.content;
    let v = match guarded(|| p.verify_signature(gen_::verifier(key))) {
        Ok(Ok(())) => "ok",
        Ok(Err(_)) => "err",
        Err(_) => "panic",
    };
    json!({"parse_ok":true,"value_changed":changed,"verify":v})
}

/// overwrite a recorded hex digest in place (same length)
fn patch_hex(bytes: &mut [u8], hdr: &RawHeader, tag: u32, newhex: &str) -> bool {
    let Some(e) = hdr.find(tag) else { return false };
    let at = hdr.store_at + e.offset as usize;
    if at + newhex.len() > bytes.len() { return false; }
    bytes[at..at + newhex.len()].copy_from_slice(newhex.as_bytes());
    true
}

pub fn run(args: &Args) {
    let mut t = Tracer::create(args.req("out"));
    let mut rng = Rng::new(args.seed());
    if let Some(cases) = args.get("cases") {
        let car = carrier();
        let car_empty = carrier_with(vec![]);
        for (i, line) in std::fs::read_to_string(cases).unwrap().lines().enumerate() {
            if line.trim().is_empty() { continue; }
            let c: Value = serde_json::from_str(line).unwrap();
            // a case whose recorded digest is wrong runs under every order of the signature index, the others under one
            if c["digest"] == "mismatch" {
                for perm in 0..8 { run_case(&mut t, &c, &car, i, perm); }
            } else {
                run_case(&mut t, &c, &car, i, i % 8);
            }
            // cases with a header+payload signature also on the carrier whose payload is empty
            if c["pgp"] != "absent" && i % 2 == 0 {
                run_case(&mut t, &c, &car_empty, i, (i / 2) % 8);
            }
        }
    }
    let nflips = args.num("flips", 400);
    let wd = gen_::Workdir::new("c02");
    // a hand-encoded package whose payload digest algorithm entry holds two items (the first counts), signed by the
    // library with a real key: its payload is covered by the recorded payload digest like any other
    for key in ["ed25519", "rsa4096"] {
        let d = json!({"md5":"absent","sha1":"absent","sha256":"match","payload":"match","algo":"sha256"});
        let raw = crate::c03::materialise(&d, "second");
        let signed = guarded(|| -> Result<Vec<u8>, rpm::Error> {
            let mut p = Package::parse(&mut &raw[..])?;
            p.sign_with_timestamp(gen_::signer(key), 1_600_000_000u32)?;
            let mut b = vec![];
            p.write(&mut Plain(&mut b))?;
            Ok(b)
        });
        let Ok(Ok(base)) = signed else { t.emit(json!({"event":"CarrierSkipped","why":"hand-encoded carrier could not be signed","key":key})); continue };
        let (Ok(orig), Some(lay)) = (Package::parse(&mut &base[..]), rawhdr::layout(&base)) else { continue };
        let mut e = verify_real(&base, &orig, key);
        e["event"] = json!("Tampered"); e["key"] = json!(key); e["what"] = json!("untouched (two-item algorithm entry)"); e["ep_start"] = json!(true);
        let ok = e["verify"] == "ok";
        t.emit(e);
        if !ok { t.emit(json!({"event":"CarrierSkipped","why":"the signed hand-encoded carrier does not verify","key":key})); continue; }
        let plen = base.len() - lay.payload_at;
        for bit in 0..(plen * 8).min(96) {
            let mut m = base.clone();
            m[lay.payload_at + bit / 8] ^= 1 << (bit % 8);
            let mut e = verify_real(&m, &orig, key);
            e["event"] = json!("Tampered"); e["key"] = json!(key); e["what"] = json!(format!("two-item algorithm entry; flip payload bit {bit}")); e["ep_start"] = json!(true);
            t.emit(e);
        }
    }
    // carriers: per key a small package, and (two keys; all keys in the thorough tier) one whose main header is
    // several tens of KiB - larger than any I/O buffer a verifier might read it through
    let mut carriers: Vec<(&str, bool)> = gen_::KEYS.iter().map(|k| (*k, false)).collect();
    for (i, k) in gen_::KEYS.iter().enumerate() {
        if args.thorough() || i % 2 == 0 { carriers.push((*k, true)); }
    }
    // (compression of the carrier: none, except for two extra small carriers with a gzip and a zstd payload, whose
    // container bytes - member header, frame header, trailer - are payload bytes like any other)
    let mut carriers: Vec<(&str, bool, &str)> = carriers.into_iter().map(|(k, b)| (k, b, "none")).collect();
    carriers.push(("ed25519", false, "gzip"));
    carriers.push(("rsa4096", false, "zstd"));
    for (key, big, comp) in carriers {
        let mut cfg = gen_::rand_cfg(&mut rng, 0, 0);
        let mut used = vec![];
        cfg.files = vec![gen_::rand_file(&mut rng, &mut used, 200)];
        cfg.files[0].len = 150;
        cfg.files[0].mode = Some(0o100644);
        cfg.files[0].link = None;
        if big {
            for k in 0..(160 + rng.below(80)) {
                let mut f = gen_::rand_file(&mut rng, &mut used, 8);
                f.dest = format!("/usr/share/verif-big/{}/{}/entry-{k:04}.dat", "s".repeat(1 + (k % 37) as usize), k % 5);
                f.link = None;
                f.mode = Some(0o100644);
                cfg.files.push(f);
            }
        }
        cfg.compression = Some((comp.into(), None));
        cfg.signer = Some(key.to_string());
        let pkg = match guarded(|| gen_::build(&cfg, &wd)) {
            Ok(Ok(p)) => p,
            // (building / signing is other properties' business: without a carrier there is nothing to tamper with)
            _ => { t.emit(json!({"event":"CarrierSkipped","why":"build_and_sign failed","key":key})); continue; }
        };
        let mut base = vec![];
        pkg.write(&mut Plain(&mut base)).unwrap();
        let orig = Package::parse(&mut &base[..]).unwrap();
        let lay = rawhdr::layout(&base).unwrap();
        // the untouched package verifies (otherwise nothing below means anything)
        let mut e = verify_real(&base, &orig, key);
        e["event"] = json!("Tampered"); e["key"] = json!(key); e["what"] = json!(if big { "untouched (large header)" } else { "untouched" });
        e["ep_start"] = json!(true);
        let untouched_ok = e["verify"] == "ok";
        t.emit(e);
        if !untouched_ok {
            // a valid package that is refused is C10's violation, not C02's ("succeeds only if ...")
            t.emit(json!({"event":"CarrierSkipped","why":"the untouched signed package does not verify","key":key}));
            continue;
        }
        let region_bits = (base.len() - lay.hdr_at) * 8;
        for k in 0..nflips {
            let bit = if (region_bits as u64) <= nflips { if k as usize >= region_bits { break; } k as usize } else { rng.below(region_bits as u64) as usize };
            let mut m = base.clone();
            m[lay.hdr_at + bit / 8] ^= 1 << (bit % 8);
            let mut e = verify_real(&m, &orig, key);
            e["event"] = json!("Tampered"); e["key"] = json!(key); e["what"] = json!(format!("flip bit {} of header+payload", bit));
            e["ep_start"] = json!(true);
            t.emit(e);
        }
        // every bit of the first 24 and the last 16 payload bytes (where a compressed stream keeps its container fields)
        if comp != "none" {
            let plen = base.len() - lay.payload_at;
            let mut bits: Vec<usize> = (0..(24usize.min(plen)) * 8).collect();
            bits.extend((plen.saturating_sub(16) * 8)..(plen * 8));
            for bit in bits {
                let mut m = base.clone();
                m[lay.payload_at + bit / 8] ^= 1 << (bit % 8);
                let mut e = verify_real(&m, &orig, key);
                e["event"] = json!("Tampered"); e["key"] = json!(key); e["what"] = json!(format!("{comp} payload: flip bit {bit} of the payload"));
                e["ep_start"] = json!(true);
                t.emit(e);
            }
        }
        // signature entries that hold no (valid) signature at all, the content untouched and every digest true: the
        // real verifier cannot have accepted anything, so verification must fail
        if !big {
            use base64::Engine;
            let sha = lay.sig.string(&base, 273).unwrap_or_default();
            let good_txt = lay.sig.strings(&base, 278).and_then(|v| v.first().cloned()).unwrap_or_default();
            let good_bin = lay.sig.bin(&base, 268).or_else(|| lay.sig.bin(&base, 267)).unwrap_or_default();
            let legacy_tag = if lay.sig.find(268).is_some() { 268 } else { 267 };
            let uid_packet: Vec<u8> = { let mut v = vec![0xB4u8, 5]; v.extend_from_slice(b"a <b>"); v };   // a user-id packet
            let b64 = |x: &[u8]| base64::engine::general_purpose::STANDARD.encode(x).into_bytes();
            let mut garbled = good_txt.clone();
            if !garbled.is_empty() { garbled[0] = b'!'; }
            let mut cut = good_bin.clone();
            cut.truncate(good_bin.len() / 2);
            let variants: Vec<(&str, Vec<(u32, u32, Value)>)> = vec![
                ("OPENPGP text starting with a non-base64 character", vec![(278, T_STRARR, json!([garbled]))]),
                ("OPENPGP empty string", vec![(278, T_STRARR, json!([Vec::<u8>::new()]))]),
                ("OPENPGP holds a user-id packet", vec![(278, T_STRARR, json!([b64(&uid_packet)]))]),
                ("OPENPGP holds half a signature packet", vec![(278, T_STRARR, json!([b64(&cut)]))]),
                ("OPENPGP holds random bytes", vec![(278, T_STRARR, json!([b64(&[0x13u8, 0x37, 0xC0, 0xFF, 0xEE, 0x00, 0x01, 0x02])]))]),
                ("legacy tag empty", vec![(legacy_tag, T_BIN, json!(Vec::<u8>::new()))]),
                ("legacy tag holds text", vec![(legacy_tag, T_BIN, json!(b"not a signature".to_vec()))]),
                ("legacy tag holds a user-id packet", vec![(legacy_tag, T_BIN, json!(uid_packet.clone()))]),
                ("legacy tag holds half a signature packet", vec![(legacy_tag, T_BIN, json!(cut.clone()))]),
                ("PGP (header+payload) tag holds the header-only signature", vec![(1002, T_BIN, json!(good_bin.clone()))]),
            ];
            for (what, mut ents) in variants {
                ents.push((273, T_STRING, json!([sha.as_bytes()])));
                let sig = encode_wellformed(62, &ents);
                let m = rawhdr::assemble(&base[..96], &sig, &base[lay.hdr_at..lay.payload_at], &base[lay.payload_at..], 0);
                let mut e = verify_real(&m, &orig, key);
                e["event"] = json!("NoSignature"); e["key"] = json!(key); e["what"] = json!(what);
                e["ep_start"] = json!(true);
                t.emit(e);
            }
        }
        // the genuine signature(s) next to a header digest that is wrong, under every order of the signature index: a
        // recorded digest that does not match the header rules success out
        if !big {
            let sha = lay.sig.string(&base, 273).unwrap_or_default();
            if sha.len() == 64 {
                let wrong: String = sha.chars().enumerate().map(|(i, c)| if i == 40 { if c == '0' { '1' } else { '0' } } else { c }).collect();
                let mut m = base.clone();
                if patch_hex(&mut m, &lay.sig, 273, &wrong) {
                    for perm in 0..8 {
                        let Some(mp) = crate::c03::permute_sig_index(&m, perm) else { continue };
                        let mut e = verify_real(&mp, &orig, key);
                        e["event"] = json!("WrongDigest"); e["key"] = json!(key);
                        e["what"] = json!(format!("header SHA-256 digit 40 changed; signature index order {perm}"));
                        e["ep_start"] = json!(true);
                        t.emit(e);
                    }
                }
            }
        }
        // the same package with a signature header that holds the genuine signature(s) but no header digest: the payload
        // digest inside the signed header is then all that protects the payload
        if !big {
            let mut ents: Vec<(u32, u32, Value)> = vec![];
            if let Some(v) = lay.sig.strings(&base, 278) { ents.push((278, T_STRARR, json!(v))); }
            for tag in [267u32, 268] {
                if let Some(bin) = lay.sig.bin(&base, tag) { ents.push((tag, T_BIN, json!(bin))); }
            }
            let sig = encode_wellformed(62, &ents);
            let stripped = rawhdr::assemble(&base[..96], &sig, &base[lay.hdr_at..lay.payload_at], &base[lay.payload_at..], 0);
            let e0 = verify_real(&stripped, &orig, key);
            if e0["verify"] == "ok" {
                if let Some(l2) = rawhdr::layout(&stripped) {
                    let plen = stripped.len() - l2.payload_at;
                    for k in 0..40usize.min(plen * 8) {
                        let bit = if plen * 8 <= 40 { k } else { rng.below(plen as u64 * 8) as usize };
                        let mut m = stripped.clone();
                        m[l2.payload_at + bit / 8] ^= 1 << (bit % 8);
                        let mut e = verify_real(&m, &orig, key);
                        e["event"] = json!("Tampered"); e["key"] = json!(key);
                        e["what"] = json!(format!("signature header without SHA256 tag; flip payload bit {bit}"));
                        e["ep_start"] = json!(true);
                        t.emit(e);
                    }
                }
            } else {
                t.emit(json!({"event":"CarrierSkipped","why":"does not verify without the SHA256 tag","key":key}));
            }
        }
        // digest-consistent forgeries: change content, then repair every recorded digest
        let nforge = args.num("forgeries", 40);
        for k in 0..nforge {
            let mut m = base.clone();
            let what;
            if k % 2 == 0 && m.len() > lay.payload_at {
                let p = lay.payload_at + rng.below((m.len() - lay.payload_at) as u64) as usize;
                m[p] ^= 0x20;
                let ph = hex(&Sha256::digest(&m[lay.payload_at..]));
                patch_hex(&mut m, &lay.hdr, 5092, &ph);
                what = format!("payload byte {} + repaired digests", p - lay.payload_at);
            } else {
                // a byte inside the store of the main header (not the digest strings themselves)
                let p = lay.hdr.store_at + rng.below((lay.hdr.dsize - 16) as u64) as usize;
                m[p] ^= 0x01;
                what = format!("header store byte {} + repaired digests", p - lay.hdr.store_at);
            }
            let hh = hex(&Sha256::digest(&m[lay.hdr_at..lay.payload_at]));
            patch_hex(&mut m, &lay.sig, 273, &hh);
            let mut e = verify_real(&m, &orig, key);
            e["event"] = json!("Tampered"); e["key"] = json!(key); e["what"] = json!(what);
            e["digests_repaired"] = json!(digest_state(&m));
            e["ep_start"] = json!(true);
            t.emit(e);
        }
    }
    t.flush();
}
