//! C18: file-mode conversions - all 65 536 words (blocks of 256), all negative in-range i32,
//! the three named constructors on all 65 536 arguments, and the complete 32-bit range
//! run-length encoded.
use crate::util::*;
use rpm::FileMode;
use serde_json::json;

fn class_code(m: &FileMode) -> i32 {
    match m {
        FileMode::Dir { .. } => 1,
        FileMode::Regular { .. } => 2,
        FileMode::SymbolicLink { .. } => 3,
        FileMode::Invalid { .. } => 0,
        _ => 9,
    }
}

struct Cols {
    raw: Vec<u32>,
    ty: Vec<u32>,
    perms: Vec<u32>,
    class: Vec<i32>,
    valid: Vec<bool>,
}
impl Cols {
    fn new() -> Cols {
        Cols { raw: vec![], ty: vec![], perms: vec![], class: vec![], valid: vec![] }
    }
    fn push(&mut self, m: FileMode) {
        self.raw.push(m.raw_mode() as u32);
        self.ty.push(m.file_type() as u32);
        self.perms.push(m.permissions() as u32);
        self.class.push(class_code(&m));
        self.valid.push(m.to_result().is_ok());
    }
}

pub fn run(args: &Args) {
    let mut t = Tracer::create(args.req("out"));
    for base in (0..65536u32).step_by(256) {
        let r = guarded(|| {
            let mut c = Cols::new();
            let mut as_u32 = vec![];
            let mut as_u16 = vec![];
            let mut same = vec![];
            for w in base..base + 256 {
                let m = FileMode::from(w as u16);
                c.push(m);
                as_u32.push(u32::from(m));
                as_u16.push(u16::from(m) as u32);
                let m2 = FileMode::from(w as i32);
                let ok2 = FileMode::try_from_raw(w as i32).is_ok();
                same.push(
                    m2.raw_mode() == m.raw_mode() && m2.file_type() == m.file_type()
                        && m2.permissions() == m.permissions() && class_code(&m2) == class_code(&m)
                        && ok2 == m.to_result().is_ok() && u32::from(m2) == u32::from(m),
                );
            }
            json!({"event":"ModeBlock","base":base,"raw":c.raw,"type":c.ty,"perms":c.perms,"class":c.class,
                   "valid":c.valid,"as_u32":as_u32,"as_u16":as_u16,"i32_same":same})
        });
        t.emit(r.unwrap_or_else(|m| json!({"event":"Panic","base":base,"msg":m})));
    }
    for base in (-32768i32..0).step_by(256) {
        let r = guarded(|| {
            let mut c = Cols::new();
            for x in base..base + 256 {
                let m = FileMode::from(x);
                c.push(m);
                // try_from_raw must agree with to_result
                if FileMode::try_from_raw(x).is_ok() != m.to_result().is_ok() {
                    c.valid.pop();
                    c.valid.push(!m.to_result().is_ok());
                }
            }
            json!({"event":"NegBlock","base":base,"raw":c.raw,"type":c.ty,"perms":c.perms,"class":c.class,"valid":c.valid})
        });
        t.emit(r.unwrap_or_else(|m| json!({"event":"Panic","base":base,"msg":m})));
    }
    for kind in ["dir", "regular", "symlink"] {
        for base in (0..65536u32).step_by(256) {
            let r = guarded(|| {
                let mut c = Cols::new();
                for p in base..base + 256 {
                    let m = match kind {
                        "dir" => FileMode::dir(p as u16),
                        "regular" => FileMode::regular(p as u16),
                        _ => FileMode::symbolic_link(p as u16),
                    };
                    c.push(m);
                }
                json!({"event":"CtorBlock","kind":kind,"base":base,"raw":c.raw,"type":c.ty,"perms":c.perms,"class":c.class})
            });
            t.emit(r.unwrap_or_else(|m| json!({"event":"Panic","kind":kind,"base":base,"msg":m})));
        }
    }
    // the complete 32-bit range: verdict "in" = converted to a valid mode, "oor"... we record only
    // whether the integer was reported invalid ("inv") or converted ("ok"); the specification knows
    // which in-range words are valid and demands "inv" everywhere outside the 16-bit range.
    let nthreads = 16i64;
    let lo = i32::MIN as i64;
    let total = 1i64 << 32;
    let chunk = total / nthreads;
    let mut handles = vec![];
    for k in 0..nthreads {
        let a = lo + k * chunk;
        let b = if k == nthreads - 1 { i32::MAX as i64 } else { a + chunk - 1 };
        handles.push(std::thread::spawn(move || {
            let mut runs: Vec<(i64, i64, bool)> = vec![];
            let mut x = a;
            while x <= b {
                let xi = x as i32;
                let m = FileMode::from(xi);
                let inv = FileMode::try_from_raw(xi).is_err() && matches!(m, FileMode::Invalid { .. });
                match runs.last_mut() {
                    Some(r) if r.2 == inv => r.1 = x,
                    _ => runs.push((x, x, inv)),
                }
                x += 1;
            }
            runs
        }));
    }
    let mut runs: Vec<(i64, i64, bool)> = vec![];
    let mut panicked = false;
    for h in handles {
        match h.join() {
            Ok(rs) => {
                for r in rs {
                    match runs.last_mut() {
                        Some(l) if l.2 == r.2 && l.1 + 1 == r.0 => l.1 = r.1,
                        _ => runs.push(r),
                    }
                }
            }
            Err(_) => panicked = true,
        }
    }
    if panicked || runs.len() > 5000 {
        t.emit(json!({"event":"Panic","op":"i32 sweep","runs":runs.len()}));
    } else {
        let rj: Vec<_> = runs.iter().map(|r| json!({"lo":r.0,"hi":r.1,"verdict": if r.2 {"inv"} else {"ok"}})).collect();
        t.emit(json!({"event":"I32Runs","runs":rj}));
    }
    t.flush();
}
