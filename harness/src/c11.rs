//! C11: reproducible builds. Every configuration is built several times in this process and in
//! freshly spawned child processes (different hash seeds, TZ, working directory, environment);
//! each run reports the SHA-256 of the written bytes and every timestamp the package carries.
use crate::cfggen as gen_;
use crate::rawhdr;
use crate::util::*;
use rpm::Package;
use serde_json::{Value, json};
use sha2::{Digest, Sha256};

pub fn make_cfg(seed: u64, idx: u64) -> gen_::Cfg {
    let mut rng = Rng::new(seed.wrapping_mul(1_000_003).wrapping_add(idx));
    let mut cfg = gen_::rand_cfg(&mut rng, 3, 400);
    // (the source date is usually 1 600 000 000; now and then the epoch itself or its first second)
    cfg.source_date = Some(match idx % 8 { 5 => 0, 6 => 1, _ => 1_600_000_000 });
    // several distinct non-root owners and groups
    let users = ["alice", "bob", "carol", "dave", "eve", "mallory", "trent"];
    let groups = ["staff", "wheel", "adm", "users", "audio", "video"];
    let n = 2 + (idx % 5) as usize;
    let mut used: Vec<String> = cfg.files.iter().map(|f| gen_::installed_path(&f.dest)).collect();
    for k in 0..n {
        let mut f = gen_::rand_file(&mut rng, &mut used, 200);
        f.user = Some(users[(k + idx as usize) % users.len()].to_string());
        f.group = Some(groups[(k * 2 + idx as usize) % groups.len()].to_string());
        f.mtime = if k % 2 == 0 { 1_500_000_000 + k as u32 } else if k % 4 == 3 { 2_200_000_000 + k as u32 } else { 1_700_000_000 + k as u32 };
        cfg.files.push(f);
    }
    // every third configuration is (also) made of the names real packages carry, half of them newer than the source date
    if idx % 3 == 2 {
        for (k, mut f) in gen_::realistic_files(&mut rng, &mut used, Some((idx / 3) as usize)).into_iter().enumerate() {
            f.mtime = if k % 2 == 1 { 1_500_000_000 + k as u32 } else { 1_700_000_000 + k as u32 };
            cfg.files.push(f);
        }
    }
    cfg.late_source_date = idx % 2 == 1;
    cfg.signer = match idx % 3 { 0 => None, 1 => Some("ed25519".into()), _ => Some("rsa4096".into()) };
    cfg
}

fn sig_time(bytes: &[u8]) -> Option<u32> {
    let lay = rawhdr::layout(bytes)?;
    let raw = lay.sig.bin(bytes, 268).or_else(|| lay.sig.bin(bytes, 267))?;
    let mut cur = std::io::Cursor::new(&raw[..]);
    for p in pgp::packet::PacketParser::new(&mut cur) {
        if let Ok(pgp::packet::Packet::Signature(s)) = p {
            return s.created().map(|t| t.timestamp() as u32);
        }
    }
    None
}

/// modification times recorded in the archive's own entry headers (newc field 6)
fn cpio_mtimes(bytes: &[u8]) -> Option<Vec<u32>> {
    let lay = rawhdr::layout(bytes)?;
    let comp = lay.hdr.string(bytes, 1125).unwrap_or_else(|| "none".into());
    let a = crate::pkgobs::decompress(&comp, &bytes[lay.payload_at..])?;
    let hex8 = |at: usize| -> Option<u32> { u32::from_str_radix(std::str::from_utf8(a.get(at..at + 8)?).ok()?, 16).ok() };
    let (mut at, mut out) = (0usize, vec![]);
    for _ in 0..100000 {
        let magic = a.get(at..at + 6)?;
        if magic == b"07070X" {
            return Some(out); // stripped entries carry no times
        }
        if magic != b"070701" && magic != b"070702" {
            return None;
        }
        let (mtime, size, nsz) = (hex8(at + 46)?, hex8(at + 54)? as usize, hex8(at + 94)? as usize);
        let name = a.get(at + 110..at + 110 + nsz.checked_sub(1)?)?;
        if name == b"TRAILER!!!" {
            return Some(out);
        }
        out.push(mtime);
        at = (((at + 110 + nsz + 3) / 4 * 4) + size + 3) / 4 * 4;
    }
    None
}

/// `salt` moves every input file whose mtime lies after the source date to another time after the
/// source date: such times are clamped away, so the output may not depend on them
pub fn one_run(cfg: &gen_::Cfg, cfgid: &str, proc_name: &str, wd: &gen_::Workdir, salt: u32) -> Value {
    let mut cfg = cfg.clone();
    let sd = cfg.source_date.unwrap_or(1_600_000_000);
    for f in cfg.files.iter_mut() {
        if f.mtime > sd {
            f.mtime += salt * 977;
        }
    }
    // the same set of files handed over in another order, and the same source date spelled as a date-time in
    // another time zone, are the same configuration
    let nf = cfg.files.len();
    if nf > 1 {
        cfg.files.rotate_left(salt as usize % nf);
        if salt % 2 == 1 {
            cfg.files.reverse();
        }
    }
    cfg.source_date_offset = [None, Some(0), Some(7200), Some(i32::MAX), Some(-28800), Some(19800), Some(-12600)][salt as usize % 7];
    let cfg = &cfg;
    let r = guarded(|| -> Result<Value, rpm::Error> {
        let p = gen_::build(cfg, wd)?;
        let mut bytes = vec![];
        p.write(&mut Plain(&mut bytes))?;
        let q = Package::parse(&mut &bytes[..])?;
        let mut times: Vec<u32> = vec![q.metadata.get_build_time()? as u32];
        for e in q.metadata.get_file_entries()? {
            times.push(e.modified_at.0);
        }
        if let Some(t) = sig_time(&bytes) {
            times.push(t);
        }
        let header_times = times.len();
        // the gzip member header of a gzip payload carries a modification time of its own
        if let Some(lay) = rawhdr::layout(&bytes) {
            let p = &bytes[lay.payload_at..];
            if p.len() >= 8 && p[0] == 0x1f && p[1] == 0x8b {
                times.push(u32::from_le_bytes([p[4], p[5], p[6], p[7]]));
            }
        }
        match cpio_mtimes(&bytes) {
            Some(v) => times.extend(v),
            None => times.push(u32::MAX), // an archive the scanner cannot read is reported as a late time
        }
        let _ = header_times;
        Ok(json!({"event":"Run","cfg":cfgid,"proc":proc_name,"bytes_sha256":hex(&Sha256::digest(&bytes)),
                  "times":times.iter().map(|t| json!([t >> 16, t & 0xFFFF])).collect::<Vec<_>>(),
                  "source_date":[sd >> 16, sd & 0xFFFF],
                  "signed":cfg.signer.clone().unwrap_or_default(),"len":bytes.len()}))
    });
    match r {
        Ok(Ok(v)) => v,
        Ok(Err(e)) => json!({"event":"BuildErr","cfg":cfgid,"proc":proc_name,"err":format!("{e}")}),
        Err(m) => json!({"event":"Panic","cfg":cfgid,"proc":proc_name,"msg":m}),
    }
}

/// child entry: build configuration (seed, idx) once and print the Run event on stdout
pub fn run_child(args: &Args) {
    let seed = args.seed();
    let idx = args.num("idx", 0);
    let cfg = make_cfg(seed, idx);
    let wd = gen_::Workdir::new(&format!("c11c{}", args.num("k", 0)));
    let ev = one_run(&cfg, &format!("cfg{idx}"), &format!("child{}", args.num("k", 0)), &wd, 3 + args.num("k", 0) as u32);
    println!("{}", ev);
}

pub fn run(args: &Args) {
    let mut t = Tracer::create(args.req("out"));
    let n = args.num("n", 12);
    let exe = std::env::current_exe().unwrap();
    let wd = gen_::Workdir::new("c11");
    // a source date that lies in the future of the build host's clock, with an input file newer still: nothing is
    // claimed about reproducibility here (the build time is the clock's), but every time must be clamped
    {
        let now = std::time::SystemTime::now().duration_since(std::time::UNIX_EPOCH).map(|d| d.as_secs() as u32).unwrap_or(1_800_000_000);
        for j in 0..4u64 {
            let mut cfg = make_cfg(args.seed(), 10_000 + j);
            cfg.source_date = Some(now + 86_400);
            cfg.signer = if j % 2 == 0 { None } else { Some("ed25519".into()) };
            for (k, f) in cfg.files.iter_mut().enumerate() {
                if k % 2 == 0 { f.mtime = now + 2 * 86_400 + k as u32; }
            }
            t.emit(one_run(&cfg, &format!("future{j}"), "inproc0", &wd, 0));
        }
    }
    // the first run of every configuration, then a pause: the later runs of a configuration start in another
    // second of the wall clock than its first one
    for idx in 0..n {
        let cfg = make_cfg(args.seed(), idx);
        t.emit(one_run(&cfg, &format!("cfg{idx}"), "inproc0", &wd, 0));
    }
    std::thread::sleep(std::time::Duration::from_millis(1100));
    for idx in 0..n {
        let cfg = make_cfg(args.seed(), idx);
        let id = format!("cfg{idx}");
        for k in 1..3 {
            t.emit(one_run(&cfg, &id, &format!("inproc{k}"), &wd, k));
        }
        let tzs = ["UTC", "Asia/Tokyo", "America/Los_Angeles", "Europe/Berlin"];
        for k in 0..3usize {
            let mut cmd = std::process::Command::new(&exe);
            cmd.args(["c11-child", "--seed", &args.seed().to_string(), "--idx", &idx.to_string(), "--k", &k.to_string()])
                .env("TZ", tzs[k % tzs.len()])
                // everything a build might pick up from its surroundings differs between the processes
                .env("HOSTNAME", format!("buildhost-{k}.example.org")).env("HOST", format!("h{k}"))
                .env("USER", format!("user{k}")).env("LOGNAME", format!("user{k}")).env("HOME", format!("/nonexistent/home{k}"))
                .env("LANG", ["C", "de_DE.UTF-8", "ja_JP.UTF-8"][k % 3]).env("LC_ALL", ["C", "de_DE.UTF-8", "ja_JP.UTF-8"][k % 3])
                .env("TMPDIR", { let d = std::env::temp_dir().join(format!("rpm_verif_c11_tmp{k}")); let _ = std::fs::create_dir_all(&d); d })
                .env("RPM_VERIF_PADDING", "x".repeat(1 + 997 * k))
                // (the source date is what the configuration says, whatever a build environment exports)
                .env("SOURCE_DATE_EPOCH", ["", "1700000000", "1500000000"][k % 3])
                .current_dir(if k % 2 == 0 { "/" } else { "/tmp" });
            if k % 3 == 0 { cmd.env_remove("SOURCE_DATE_EPOCH"); }
            match cmd.output() {
                Ok(o) if o.status.success() => {
                    let line = String::from_utf8_lossy(&o.stdout);
                    match serde_json::from_str::<Value>(line.trim()) {
                        Ok(v) => { t.emit(v); }
                        Err(_) => { t.emit(json!({"event":"Panic","cfg":id,"proc":format!("child{k}"),"msg":"unparsable child output"})); }
                    }
                }
                _ => { t.emit(json!({"event":"Panic","cfg":id,"proc":format!("child{k}"),"msg":"child failed"})); }
            }
        }
    }
    t.flush();
}
