//! Life-cycle walks (spec/Rpm.tla): random sequences of sign / clear / write+re-parse / tamper-header /
//! tamper-payload on real built packages; after every operation the digests and all four real
//! verifiers are observed. Tampering is done on the written bytes (a byte of the NAME string, a payload
//! byte), each time to a value that never occurred before, so a tamper never undoes an earlier one.
//! With `--sigtamper 1` the signature header is tampered with as well: a character of the header SHA-256 it
//! records (to a letter that is no hex digit), and a character of the base64 OpenPGP signature (each time at
//! another position inside the signature value at the end of the packet).
use crate::cfggen as gen_;
use crate::rawhdr;
use crate::util::*;
use rpm::Package;
use serde_json::{Value, json};

/// a `Signing` implementation that refuses (a hardware token that is not plugged in, a declined pin entry)
#[derive(Debug)]
struct RefusingSigner;
impl rpm::signature::Signing for RefusingSigner {
    type Signature = Vec<u8>;
    fn sign(&self, _data: impl std::io::Read, _t: rpm::Timestamp) -> Result<Vec<u8>, rpm::Error> {
        Err(std::io::Error::new(std::io::ErrorKind::Other, "the signing device refused").into())
    }
    fn algorithm(&self) -> rpm::signature::AlgorithmType {
        rpm::signature::AlgorithmType::RSA
    }
}

/// is the header SHA-256 recorded in the signature header, and is it the digest of the header as written ?
fn header_digest_true(p: &Package) -> bool {
    use sha2::Digest;
    let b = written(p);
    match rawhdr::layout(&b) {
        Some(lay) => lay.sig.string(&b, 273).map(|s| s == hex(&sha2::Sha256::digest(&b[lay.hdr_at..lay.payload_at]))).unwrap_or(false),
        None => false,
    }
}

fn observe(p: &Package) -> Value {
    let hdt = guarded(|| header_digest_true(p)).unwrap_or(false);
    let r = guarded(|| {
        let mut ver = serde_json::Map::new();
        for k in gen_::KEYS {
            ver.insert(k.to_string(), json!(p.verify_signature(gen_::verifier(k)).is_ok()));
        }
        json!({"digests_ok": p.verify_digests().is_ok(), "verifies": ver, "panicked": false, "hdr_digest_true": hdt})
    });
    r.unwrap_or_else(|m| json!({"digests_ok": false, "verifies": {"rsa4096":false,"rsa3072p":false,"ed25519":false,"ecdsa":false}, "panicked": true, "hdr_digest_true": hdt, "msg": m}))
}

fn written(p: &Package) -> Vec<u8> {
    let mut b = vec![];
    p.write(&mut Plain(&mut b)).expect("write");
    b
}

pub fn run(args: &Args) {
    let mut t = Tracer::create(args.req("out"));
    let mut rng = Rng::new(args.seed() ^ 0x57A1C);
    let wd = gen_::Workdir::new("walk");
    let nwalks = args.num("walks", 30);
    let maxlen = args.num("maxlen", 6);
    let sigtamper = args.num("sigtamper", 0) != 0;
    let ops: &[&str] = if sigtamper {
        &["sign", "sign", "clear", "reparse", "tamper_header", "tamper_payload", "sign_fail", "tamper_rec_digest", "tamper_sig_blob", "tamper_sig_blob"]
    } else {
        &["sign", "sign", "clear", "reparse", "tamper_header", "tamper_payload", "sign_fail"]
    };
    for w in 0..nwalks {
        let mut cfg = gen_::rand_cfg(&mut rng, 2, 300);
        cfg.name = "walkpkg".into(); // tampering increments its first letter
        cfg.compression = Some((["none", "gzip", "zstd"][(w % 3) as usize].to_string(), None));
        let mut used = vec![];
        let mut f = gen_::rand_file(&mut rng, &mut used, 100);
        f.len = 64 + (w as usize % 7);
        f.mode = Some(0o100644);
        f.link = None;
        cfg.files.push(f);
        cfg.signer = None;
        let mut p = match guarded(|| gen_::build(&cfg, &wd)) {
            Ok(Ok(p)) => p,
            _ => { t.emit(json!({"event":"Panic","op":"build","walk":w})); continue; }
        };
        t.emit(json!({"event":"Start","ep_start":true,"walk":w,"obs":observe(&p)}));
        let (mut ht, mut pt) = (0u8, 0u8);
        let (mut rt, mut st) = (0u8, 0usize);
        for step in 0..(1 + rng.below(maxlen)) {
            let op = *rng.pick(ops);
            let key = *rng.pick(&gen_::KEYS);
            let r = guarded(|| -> Result<Package, String> {
                match op {
                    "sign" => { let mut q = p.clone(); q.sign_with_timestamp(gen_::signer(key), 1_600_000_000u32).map_err(|e| e.to_string())?; Ok(q) }
                    // a signing operation that fails part-way (a refusing signer; a protected key with the wrong passphrase):
                    // the package it was attempted on is what the walk continues with
                    "sign_fail" => {
                        let mut q = p.clone();
                        let res = if step % 2 == 0 { q.sign_with_timestamp(RefusingSigner, 1_600_000_000u32) } else {
                            let (sec, _, _) = gen_::key_files("rsa3072p");
                            let s = rpm::signature::pgp::Signer::load_from_asc_bytes(&std::fs::read(sec).map_err(|e| e.to_string())?).map_err(|e| e.to_string())?;
                            q.sign_with_timestamp(s.with_key_passphrase("not the passphrase"), 1_600_000_000u32)
                        };
                        if res.is_ok() { return Err("skip: the failing signer did not fail".into()); }
                        Ok(q)
                    }
                    "clear" => { let mut q = p.clone(); q.clear_signatures().map_err(|e| e.to_string())?; Ok(q) }
                    "reparse" => Package::parse(&mut &written(&p)[..]).map_err(|e| e.to_string()),
                    "tamper_header" => {
                        let mut b = written(&p);
                        let lay = rawhdr::layout(&b).ok_or("layout")?;
                        let e = lay.hdr.find(1000).ok_or("no NAME tag")?;
                        let pos = lay.hdr.store_at + e.offset as usize;
                        ht += 1;
                        b[pos] = b'w' + ht; // 'x', 'y', 'z', '{', ... never 'w' again
                        Package::parse(&mut &b[..]).map_err(|e| e.to_string())
                    }
                    "tamper_rec_digest" => {
                        let mut b = written(&p);
                        let lay = rawhdr::layout(&b).ok_or("layout")?;
                        let e = match lay.sig.find(273) { Some(e) if e.typ == rawhdr::T_STRING => e, _ => return Err("skip: no recorded header digest".into()) };
                        let pos = lay.sig.store_at + e.offset as usize + (rt as usize % 8);
                        rt += 1;
                        b[pos] = b'f' + rt; // 'g', 'h', ... : never a hex digit, so never the true digest again
                        Package::parse(&mut &b[..]).map_err(|e| e.to_string())
                    }
                    "tamper_sig_blob" => {
                        let mut b = written(&p);
                        let lay = rawhdr::layout(&b).ok_or("layout")?;
                        let e = match lay.sig.find(278) { Some(e) if e.typ == rawhdr::T_STRARR && e.count >= 1 => e, _ => return Err("skip: no OpenPGP signature".into()) };
                        let at = lay.sig.store_at + e.offset as usize;
                        let len = b[at..].iter().position(|&c| c == 0).ok_or("unterminated")?;
                        if len < 64 { return Err("skip: signature too short".into()); }
                        st += 1;
                        let pos = at + len - 8 - st; // inside the signature value; another character every time
                        b[pos] = if b[pos] == b'A' { b'B' } else { b'A' };
                        Package::parse(&mut &b[..]).map_err(|e| e.to_string())
                    }
                    _ => {
                        let mut b = written(&p);
                        let lay = rawhdr::layout(&b).ok_or("layout")?;
                        if lay.payload_at + 40 >= b.len() { return Err("skip: payload too short".into()); }
                        pt += 1;
                        let pos = lay.payload_at + 30;
                        b[pos] = b[pos].wrapping_add(1).max(1); // payload bytes only ever move away
                        let _ = pt;
                        Package::parse(&mut &b[..]).map_err(|e| e.to_string())
                    }
                }
            });
            match r {
                Ok(Ok(q)) => {
                    p = q;
                    t.emit(json!({"event":"Walk","walk":w,"step":step,"op":op,"key": if op == "sign" { key } else { "-" },"obs":observe(&p)}));
                }
                Ok(Err(m)) if m.starts_with("skip:") => { t.emit(json!({"event":"Skip","walk":w,"step":step,"op":op,"msg":m})); }
                Ok(Err(m)) => { t.emit(json!({"event":"WalkErr","walk":w,"step":step,"op":op,"msg":m})); break; }
                Err(m) => { t.emit(json!({"event":"Panic","walk":w,"step":step,"op":op,"msg":m})); break; }
            }
        }
    }
    t.flush();
}
