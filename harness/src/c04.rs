//! C04: untrusted bytes never crash the reader. Cases run in a child process under an address-space
//! limit, a per-case alarm and the counting allocator; every result line is flushed before the next
//! case starts, so that an abort or timeout is attributed to the case in flight and the parent
//! restarts behind it.
use crate::alloc;
use crate::c07;
use crate::cfggen as gen_;
use crate::pkg::{asset_paths, encode_case, mutate};
use crate::pkgobs;
use crate::rawhdr::{self, *};
use crate::util::*;
use rpm::Package;
use serde_json::{Value, json};
use std::io::{BufRead, Write};

fn case_bytes(c: &Value) -> Vec<u8> {
    if let Some(h) = c.get("hex").and_then(|x| x.as_str()) {
        return ::hex::decode(h).unwrap_or_default();
    }
    encode_case(c)
}

/// every read-side operation on one input; returns per-op results and the worst allocation peak
fn exercise(bytes: &[u8]) -> Value {
    let mut ops: Vec<Value> = vec![];
    let mut worst = 0usize;
    let mut run = |name: &str, f: &mut dyn FnMut() -> Result<(), String>| {
        let base = alloc::reset_peak();
        let r = guarded(|| f());
        let peak = alloc::peak_above(base);
        worst = worst.max(peak);
        let res = match r { Ok(Ok(())) => "ok", Ok(Err(_)) => "err", Err(_) => "panic" };
        let mut o = json!({"op": name, "result": res, "peak": peak});
        if let Err(m) = r { o["msg"] = json!(m.chars().take(160).collect::<String>()); }
        ops.push(o);
    };
    let mut pkg: Option<Package> = None;
    run("PackageMetadata::parse", &mut || rpm::PackageMetadata::parse(&mut &bytes[..]).map(|_| ()).map_err(|e| e.to_string()));
    run("Package::parse", &mut || match Package::parse(&mut &bytes[..]) { Ok(p) => { pkg = Some(p); Ok(()) } Err(e) => Err(e.to_string()) });
    if let Some(p) = &pkg {
        run("accessors", &mut || { let g = pkgobs::all_gets(&p.metadata); if g.iter().any(|x| x["res"].get("panic").is_some()) { panic!("accessor panicked: {}", g.iter().find(|x| x["res"].get("panic").is_some()).unwrap()) } Ok(()) });
        run("get_file_entries", &mut || p.metadata.get_file_entries().map(|_| ()).map_err(|e| e.to_string()));
        run("get_file_digest_algorithm", &mut || p.metadata.get_file_digest_algorithm().map(|_| ()).map_err(|e| e.to_string()));
        run("segment_offsets", &mut || { let _ = p.metadata.get_package_segment_offsets(); Ok(()) });
        run("display", &mut || { let _ = format!("{} {}", p.metadata.header, p.metadata.signature); let _ = format!("{:?}", p.metadata.lead); Ok(()) });
        run("verify_digests", &mut || p.verify_digests().map_err(|e| e.to_string()));
        run("verify_signature", &mut || p.verify_signature(gen_::verifier("rsa4096")).map_err(|e| e.to_string()));
        run("verify_signature(ed25519)", &mut || p.verify_signature(gen_::verifier("ed25519")).map_err(|e| e.to_string()));
        run("signature_key_ids", &mut || p.signature_key_ids().map(|_| ()).map_err(|e| e.to_string()));
        let uncompressed = matches!(p.metadata.get_payload_compressor(), Ok(rpm::CompressionType::None));
        if uncompressed || bytes.len() < 40_000 {
            run("files", &mut || {
                let it = p.files().map_err(|e| e.to_string())?;
                let mut n = 0usize;
                let mut firsterr = None;
                for f in it {
                    n += 1;
                    if n > 100_000 { panic!("files() did not terminate after 100000 items"); }
                    if let Err(e) = f { firsterr.get_or_insert(e.to_string()); }
                }
                match firsterr { Some(e) => Err(e), None => Ok(()) }
            });
        }
        run("write", &mut || { let mut o = vec![]; p.write(&mut Plain(&mut o)).map_err(|e| e.to_string()) });
    }
    json!({"ops": ops, "worst_peak": worst, "accepted": pkg.is_some()})
}

/// child: process cases from stdin lines "idx<TAB>json", print "R<TAB>idx<TAB>json" per case
pub fn run_child(_args: &Args) {
    unsafe {
        let lim = libc::rlimit { rlim_cur: 3 << 30, rlim_max: 3 << 30 };
        libc::setrlimit(libc::RLIMIT_AS, &lim);
    }
    let stdin = std::io::stdin();
    let stdout = std::io::stdout();
    for line in stdin.lock().lines() {
        let Ok(line) = line else { break };
        let Some((idx, js)) = line.split_once('\t') else { continue };
        {
            let mut o = stdout.lock();
            let _ = writeln!(o, "S\t{idx}");
            let _ = o.flush();
        }
        unsafe { libc::alarm(20); }
        let c: Value = serde_json::from_str(js).unwrap_or(json!({}));
        let bytes = case_bytes(&c);
        let r = exercise(&bytes);
        unsafe { libc::alarm(0); }
        let mut o = stdout.lock();
        let _ = writeln!(o, "R\t{idx}\t{}\t{}", bytes.len(), r);
        let _ = o.flush();
    }
}

fn run_cases(t: &mut Tracer, family: &str, cases: &[Value], keep_input: bool) {
    let exe = std::env::current_exe().unwrap();
    let mut next = 0usize;
    while next < cases.len() {
        // (the binary may be momentarily replaced by a concurrent cargo build: retry)
        let mut child = None;
        for attempt in 0..50 {
            match std::process::Command::new(&exe).arg("c04-child")
                .stdin(std::process::Stdio::piped()).stdout(std::process::Stdio::piped()).stderr(std::process::Stdio::null())
                .spawn() {
                Ok(c) => { child = Some(c); break; }
                Err(_) if attempt < 49 => std::thread::sleep(std::time::Duration::from_millis(200)),
                Err(e) => { eprintln!("cannot spawn child: {e}"); std::process::exit(2); }
            }
        }
        let mut child = child.unwrap();
        let mut stdin = child.stdin.take().unwrap();
        let batch: Vec<(usize, String)> = (next..cases.len()).map(|i| (i, cases[i].to_string())).collect();
        let writer = std::thread::spawn(move || {
            for (i, js) in batch {
                if writeln!(stdin, "{i}\t{js}").is_err() { break; }
            }
        });
        let out = std::io::BufReader::new(child.stdout.take().unwrap());
        let mut in_flight: Option<usize> = None;
        for line in out.lines() {
            let Ok(line) = line else { break };
            let parts: Vec<&str> = line.splitn(4, '\t').collect();
            match parts.as_slice() {
                ["S", i] => in_flight = i.parse().ok(),
                ["R", i, len, js] => {
                    let i: usize = i.parse().unwrap();
                    let mut r: Value = serde_json::from_str(js).unwrap_or(json!({}));
                    let ops = r["ops"].as_array().cloned().unwrap_or_default();
                    let bad: Vec<Value> = ops.iter().filter(|o| o["result"] == "panic").cloned().collect();
                    let mut ev = json!({"event":"Outcome","family":family,"case":i,"input_len":len.parse::<usize>().unwrap_or(0),
                                        "exit":"normal","accepted":r["accepted"],"worst_peak":r["worst_peak"],
                                        "results": ops.iter().map(|o| o["result"].clone()).collect::<Vec<_>>(),
                                        "panics": bad});
                    if keep_input || !bad.is_empty() { ev["input"] = cases[i].clone(); }
                    let _ = r.as_object_mut();
                    t.emit(ev);
                    in_flight = None;
                    next = i + 1;
                }
                _ => {}
            }
        }
        let status = child.wait().ok();
        let _ = writer.join();
        if let Some(i) = in_flight {
            // the child died while working on case i
            use std::os::unix::process::ExitStatusExt;
            let sig = status.and_then(|s| s.signal()).unwrap_or(0);
            let exit = if sig == libc::SIGALRM { "timeout".to_string() } else { format!("abort(signal {sig})") };
            t.emit(json!({"event":"Outcome","family":family,"case":i,"input_len":0,"exit":exit,"accepted":false,"worst_peak":0,"results":[],"panics":[],"input":cases[i]}));
            next = i + 1;
        } else if next < cases.len() && status.map(|s| !s.success()).unwrap_or(true) && in_flight.is_none() {
            // died between cases: skip nothing, just restart
            if next == 0 { next = 0; }
        }
        if in_flight.is_none() && next >= cases.len() { break; }
    }
}

fn trailer_only() -> Vec<u8> {
    c07::newc_entry("TRAILER!!!", 0, &[], 0)
}

fn hexcase(b: &[u8], what: String) -> Value {
    json!({"hex": hex(b), "what": what})
}

pub fn run(args: &Args) {
    let mut t = Tracer::create(args.req("out"));
    let mut rng = Rng::new(args.seed());
    let thorough = args.thorough();
    // (a) boundary-value products generated by the specification
    if let Some(cases) = args.get("cases") {
        let cs: Vec<Value> = std::fs::read_to_string(cases).unwrap().lines().filter(|l| !l.trim().is_empty()).map(|l| serde_json::from_str(l).unwrap()).collect();
        run_cases(&mut t, "gen", &cs, true);
    }
    // (a1) the typed and raw headers generated for C01 / C05 / C16 (every accessor tag x data type x count, tag triples
    // with members missing, locale tables, dribbles ...): every read-side operation must return on them as well
    if let Some(cases) = args.get("hdr-cases") {
        let cs: Vec<Value> = std::fs::read_to_string(cases).unwrap().lines().filter(|l| !l.trim().is_empty()).map(|l| serde_json::from_str(l).unwrap()).collect();
        run_cases(&mut t, "hdr", &cs, false);
    }
    // (a2) the digest decision table of C03 (every combination of recorded digests present / absent / wrongly typed /
    // empty / wrong), materialised on a carrier package: verification must return on each of them
    if let Some(cases) = args.get("digest-cases") {
        let mut cs = vec![];
        for line in std::fs::read_to_string(cases).unwrap().lines() {
            if line.trim().is_empty() { continue; }
            let c: Value = serde_json::from_str(line).unwrap();
            let bytes = crate::c03::materialise(&c["d"], c["pos"].as_str().unwrap_or("first"));
            cs.push(hexcase(&bytes, format!("digest table row {}", c["d"])));
            if let Some(rb) = crate::c03::reorder_index(&bytes, true) {
                cs.push(hexcase(&rb, format!("digest table row {} (index reordered)", c["d"])));
            }
        }
        run_cases(&mut t, "digest-table", &cs, false);
    }
    // base packages: the two smallest assets and a built one
    let mut bases: Vec<(String, Vec<u8>)> = vec![];
    for p in asset_paths() {
        let b = std::fs::read(&p).unwrap();
        if b.len() < 9000 { bases.push((p.rsplit('/').next().unwrap().to_string(), b)); }
    }
    let wd = gen_::Workdir::new("c04");
    let mut cfg = gen_::rand_cfg(&mut rng, 3, 200);
    cfg.compression = Some(("none".into(), None));
    cfg.signer = Some("ed25519".into());
    if let Ok(Ok(p)) = guarded(|| gen_::build(&cfg, &wd)) {
        let mut b = vec![];
        p.write(&mut Plain(&mut b)).unwrap();
        bases.push(("built".into(), b));
    }
    bases.truncate(if thorough { 4 } else { 3 });
    // (b) every truncation and single-byte mutations of the metadata region
    for (name, b) in &bases {
        let meta = rawhdr::layout(b).map(|l| l.payload_at).unwrap_or(b.len());
        let mut cs = vec![];
        let stride = if thorough { 1 } else { 3 };
        for n in (0..=meta).step_by(stride) { cs.push(hexcase(&b[..n], format!("{name}: truncated to {n}"))); }
        for n in [meta + 1, (meta + b.len()) / 2, b.len() - 1] { if n <= b.len() { cs.push(hexcase(&b[..n], format!("{name}: truncated to {n}"))); } }
        for p in (0..meta).step_by(stride) {
            for v in [b[p] ^ 0x01, b[p] ^ 0x80, 0xFF] {
                if v == b[p] { continue; }
                let mut m = b.clone();
                m[p] = v;
                cs.push(hexcase(&m, format!("{name}: byte {p} = {v:#x}")));
            }
        }
        run_cases(&mut t, "trunc+mut", &cs, false);
    }
    // (c) structure-aware mutants
    let nm = args.num("mutants", 2000);
    let mut cs = vec![];
    for _ in 0..nm {
        let (_, base) = &bases[rng.below(bases.len() as u64) as usize];
        let (mut m, mut d) = mutate(&mut rng, base);
        for _ in 0..rng.below(3) { let (m2, d2) = mutate(&mut rng, &m); m = m2; d = format!("{d}; {d2}"); }
        cs.push(hexcase(&m, d));
    }
    run_cases(&mut t, "mutants", &cs, false);
    // (c2) a "crc" (070702) archive entry whose data bytes add up to more than 2^32 (the checksum is defined modulo 2^32)
    {
        let big = vec![0xFFu8; 16_900_000];
        let sum: u64 = big.iter().map(|&b| b as u64).sum();
        let mut arch = c07::newc_entry("./opt/a", 0o100644, &big, 1);
        arch[..6].copy_from_slice(b"070702");
        let chk = format!("{:08x}", (sum & 0xFFFF_FFFF) as u32);
        arch[6 + 8 * 12..6 + 8 * 13].copy_from_slice(chk.as_bytes());
        arch.extend_from_slice(&c07::newc_entry("TRAILER!!!", 0, &[], 0));
        let h: Vec<(u32, u32, Value)> = vec![(1000, T_STRING, json!(["x".as_bytes()])), (1004, T_I18N, json!(["s".as_bytes()])),
            (1117, T_STRARR, json!(["a".as_bytes()])), (1118, T_STRARR, json!(["/opt/".as_bytes()])), (1116, T_INT32, json!([0])),
            (1030, T_INT16, json!([0o100644])), (1028, T_INT32, json!([16_900_000u32])),
            (1039, T_STRARR, json!(["root".as_bytes()])), (1040, T_STRARR, json!(["root".as_bytes()])),
            (1035, T_STRARR, json!(["".as_bytes()])), (1034, T_INT32, json!([0u32])), (1037, T_INT32, json!([0u32])), (1036, T_STRARR, json!(["".as_bytes()]))];
        let bytes = rawhdr::assemble(&lead_bytes("crc"), &encode_wellformed(62, &[]), &encode_wellformed(63, &h), &arch, 0);
        run_cases(&mut t, "big-crc-entry", &[hexcase(&bytes, "070702 entry, 16.9 MB of 0xff".into())], false);
    }
    // (c3) a small index whose entries all refer to the same large stretch of the data section (each entry is in range on its
    // own; together they refer to many times what the file holds)
    {
        let mut cs = vec![];
        for (n, d, typ, width) in [(2000usize, 100_000usize, 7u32, 1usize), (600, 60_000, 1, 1), (600, 60_000, 2, 1), (900, 80_000, 4, 4), (400, 64_000, 5, 8), (700, 70_000, 3, 2)] {
            for in_sig in [false, true] {
                let entries: Vec<[i64; 4]> = (0..n).map(|i| [20_000 + i as i64, typ as i64, 0, (d / width) as i64]).collect();
                let big = rawhdr::encode_raw([0x8e, 0xad, 0xe8, 0x01], [0; 4], n as u32, d as u32, &entries, &vec![0x41u8; d]);
                let small = encode_wellformed(if in_sig { 63 } else { 62 }, &[]);
                let bytes = if in_sig { rawhdr::assemble(&lead_bytes("overlap"), &big, &small, b"", 0) } else { rawhdr::assemble(&lead_bytes("overlap"), &small, &big, b"", 0) };
                cs.push(hexcase(&bytes, format!("{n} entries of type {typ} over the same {d} bytes of the {} header", if in_sig { "signature" } else { "main" })));
            }
        }
        // ... and string arrays: every entry counts the same run of one-byte strings
        let d = 60_000usize;
        let store: Vec<u8> = (0..d).map(|i| if i % 2 == 0 { b'a' } else { 0 }).collect();
        let entries: Vec<[i64; 4]> = (0..500).map(|i| [20_000 + i as i64, 8, 0, (d / 2) as i64]).collect();
        let big = rawhdr::encode_raw([0x8e, 0xad, 0xe8, 0x01], [0; 4], 500, d as u32, &entries, &store);
        let bytes = rawhdr::assemble(&lead_bytes("overlap"), &encode_wellformed(62, &[]), &big, b"", 0);
        cs.push(hexcase(&bytes, "500 string arrays over the same 30000 one-byte strings".into()));
        run_cases(&mut t, "overlap", &cs, false);
    }
    // (c4) text tags the accessors interpret (payload compressor, flags, architecture ...) holding unexpected texts: long,
    // with multi-byte characters and with invalid UTF-8 at every position around the lengths code likes to cut at
    {
        let mut cs = vec![];
        let mut texts: Vec<Vec<u8>> = vec![b"".to_vec(), b"lzma".to_vec(), vec![b'x'; 300], "é".repeat(40).into_bytes(), "日本".repeat(30).into_bytes()];
        for cut in [3usize, 4, 5, 7, 8, 15, 16, 31, 32, 33, 63, 64, 65] {
            for filler in ["é", "日", "\u{1F600}"] {
                for shift in 0..filler.len() {
                    let mut t = vec![b'a'; cut + 1 - filler.len().min(cut + 1) + shift];
                    t.extend_from_slice(filler.as_bytes());
                    t.extend_from_slice(b"tail-of-the-text");
                    texts.push(t);
                }
            }
            let mut t = vec![b'a'; cut.saturating_sub(1)];
            t.extend_from_slice(&[0xFF, 0xFE, 0xC3]);
            t.extend_from_slice(b"tail");
            texts.push(t);
        }
        for (k, txt) in texts.iter().enumerate() {
            let tag = [1125u32, 1126, 1022, 1021, 1124][k % 5];
            let mut h: Vec<(u32, u32, Value)> = vec![(1000, T_STRING, json!(["x".as_bytes()])), (1004, T_I18N, json!(["s".as_bytes()]))];
            h.push((tag, T_STRING, json!([txt])));
            if tag != 1125 { h.push((1125, T_STRING, json!([txt]))); }
            let b = rawhdr::assemble(&lead_bytes("texts"), &encode_wellformed(62, &[]), &encode_wellformed(63, &h), &trailer_only(), 0);
            cs.push(hexcase(&b, format!("text tag {tag} (and the payload compressor) of {} bytes, case {k}", txt.len())));
        }
        run_cases(&mut t, "texts", &cs, false);
    }
    // (d) hostile uncompressed cpio payloads
    let mut cs = vec![];
    let good = c07::newc_entry("./opt/a", 0o100644, b"hello", 1);
    let trailer = c07::newc_entry("TRAILER!!!", 0, &[], 0);
    let field = |arch: &[u8], k: usize, v: &str| -> Vec<u8> { let mut a = arch.to_vec(); a[6 + 8 * k..6 + 8 * k + 8].copy_from_slice(v.as_bytes()); a };
    let mut archives: Vec<(String, Vec<u8>)> = vec![];
    for (k, fname) in ["ino", "mode", "uid", "gid", "nlink", "mtime", "filesize", "devmajor", "devminor", "rdevmajor", "rdevminor", "namesize", "check"].iter().enumerate() {
        for v in ["00000000", "00000001", "00001000", "00001001", "7fffffff", "80000000", "ffffffff", "0000000g", "        ", "-0000001"] {
            let mut a = field(&good, k, v);
            a.extend_from_slice(&trailer);
            archives.push((format!("{fname}={v}"), a));
        }
    }
    for magic in ["070700", "07070X", "07070x", "000000", "\u{0}\u{0}\u{0}\u{0}\u{0}\u{0}"] {
        let mut a = good.clone();
        a[..6].copy_from_slice(magic.as_bytes());
        a.extend_from_slice(&trailer);
        archives.push((format!("magic={magic:?}"), a));
    }
    for ix in ["00000000", "00000001", "00000002", "7fffffff", "ffffffff", "fffffffe", "0000000z"] {
        let mut a = format!("07070X{ix}").into_bytes();
        a.extend_from_slice(&[0, 0]);
        a.extend_from_slice(b"hello\0\0\0");
        a.extend_from_slice(&trailer);
        archives.push((format!("stripped index {ix}"), a));
        let mut a2 = format!("07070X{ix}").into_bytes();
        a2.extend_from_slice(b"he");
        archives.push((format!("stripped index {ix}, short"), a2));
    }
    { let mut a = good.clone(); a[110 + 7] = 0xC3; a.extend_from_slice(&trailer); archives.push(("non-UTF-8 name".into(), a)); }
    { let mut a = good.clone(); a[110 + 7] = b'x'; a.extend_from_slice(&trailer); archives.push(("unterminated name".into(), a)); }
    { archives.push(("no trailer".into(), good.clone())); archives.push(("empty archive".into(), vec![])); archives.push(("trailer only".into(), trailer.clone())); }
    for cut in [1usize, 6, 50, 109, 110, 115, 119, 120, 124] { archives.push((format!("archive cut at {cut}"), good[..cut.min(good.len())].to_vec())); }
    { let mut a = good.clone(); a.extend_from_slice(&trailer); archives.push(("well-formed".into(), a)); }
    // header file sizes: honest 32-bit ones; for some archives also 64-bit sizes the archive does not have
    let lies: [u64; 8] = [u64::MAX, u64::MAX - 1, u64::MAX - 2, u64::MAX - 3, 1 << 63, (1 << 63) - 1, 1 << 40, (1 << 32) + 5];
    for (what, arch) in archives {
        let lying = what == "well-formed" || what == "no trailer" || what.starts_with("stripped index 0000000") || what.starts_with("filesize=");
        for nfiles in [0usize, 1, 2] {
            if lying && nfiles > 0 {
                for v in lies {
                    let names: Vec<&[u8]> = [b"a".as_slice(), b"b".as_slice()][..nfiles].to_vec();
                    let h: Vec<(u32, u32, Value)> = vec![(1000, T_STRING, json!(["x".as_bytes()])), (1004, T_I18N, json!(["s".as_bytes()])),
                          (1117, T_STRARR, Value::Array(names.iter().map(|x| json!(x)).collect())), (1118, T_STRARR, json!(["/opt/".as_bytes()])), (1116, T_INT32, json!(vec![0; nfiles])),
                          (1030, T_INT16, json!(vec![0o100644; nfiles])), (5008, T_INT64, json!(vec![v; nfiles])),
                          (1039, T_STRARR, json!(vec!["root".as_bytes(); nfiles])), (1040, T_STRARR, json!(vec!["root".as_bytes(); nfiles])),
                          (1035, T_STRARR, json!(vec!["".as_bytes(); nfiles])), (1034, T_INT32, json!(vec![0u32; nfiles])), (1037, T_INT32, json!(vec![0u32; nfiles])),
                          (1036, T_STRARR, json!(vec!["".as_bytes(); nfiles]))];
                    let b = rawhdr::assemble(&lead_bytes("cpio"), &encode_wellformed(62, &[]), &encode_wellformed(63, &h), &arch, 0);
                    cs.push(hexcase(&b, format!("cpio: {what}, {nfiles} header files claiming {v} bytes each")));
                }
            }
            let names: Vec<&[u8]> = [b"a".as_slice(), b"b".as_slice()][..nfiles].to_vec();
            let sv = |xs: Vec<&[u8]>| Value::Array(xs.iter().map(|x| json!(x)).collect());
            let mut h: Vec<(u32, u32, Value)> = vec![(1000, T_STRING, json!(["x".as_bytes()])), (1004, T_I18N, json!(["s".as_bytes()]))];
            if nfiles > 0 {
                h.extend([(1117, T_STRARR, sv(names.clone())), (1118, T_STRARR, json!(["/opt/".as_bytes()])), (1116, T_INT32, json!(vec![0; nfiles])),
                          (1030, T_INT16, json!(vec![0o100644; nfiles])), (1028, T_INT32, json!(vec![5; nfiles])),
                          (1039, T_STRARR, json!(vec!["root".as_bytes(); nfiles])), (1040, T_STRARR, json!(vec!["root".as_bytes(); nfiles])),
                          (1035, T_STRARR, json!(vec!["".as_bytes(); nfiles])), (1034, T_INT32, json!(vec![0u32; nfiles])), (1037, T_INT32, json!(vec![0u32; nfiles])),
                          (1036, T_STRARR, json!(vec!["".as_bytes(); nfiles]))]);
            }
            let b = rawhdr::assemble(&lead_bytes("cpio"), &encode_wellformed(62, &[]), &encode_wellformed(63, &h), &arch, 0);
            cs.push(hexcase(&b, format!("cpio: {what}, {nfiles} header files")));
        }
    }
    run_cases(&mut t, "cpio", &cs, false);
    t.flush();
}
