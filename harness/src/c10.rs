//! C10: signing histories. TLC generates every operation sequence up to a bound with the
//! observation the specification expects; the harness walks them as a prefix tree over real
//! packages (each operation executed once per tree node) with the repository's four real keys and
//! records what it observes after every step.
use crate::cfggen as gen_;
use crate::rawhdr;
use crate::util::*;
use pgp::Deserializable;
use pgp::types::PublicKeyTrait;
use rpm::Package;
use serde_json::{Value, json};
use std::collections::HashMap;

fn key_id_map() -> HashMap<String, String> {
    let mut m = HashMap::new();
    for k in gen_::KEYS5 {
        let (_, pubf, _) = gen_::key_files(k);
        let text = std::fs::read_to_string(pubf).unwrap();
        let (pk, _) = pgp::SignedPublicKey::from_string(&text).unwrap();
        if k == "assetsub" {
            m.insert(format!("{:x}", pk.public_subkeys[0].key_id()), k.to_string());
        } else {
            m.insert(format!("{:x}", pk.key_id()), k.to_string());
        }
    }
    m
}

struct Ctx {
    ids: HashMap<String, String>,
    hdr0: Vec<u8>,
    payload0: Vec<u8>,
    files0: String,
}

/// a token for everything Package::files() yields (paths, metadata sizes, contents)
fn files_token(p: &Package) -> String {
    use sha2::{Digest, Sha256};
    let mut h = Sha256::new();
    match p.files() {
        Ok(it) => {
            for (n, f) in it.enumerate() {
                if n > 10_000 { break; }
                match f {
                    Ok(f) => {
                        h.update(f.metadata.path.to_string_lossy().as_bytes());
                        h.update((f.metadata.size as u64).to_be_bytes());
                        h.update(Sha256::digest(&f.content));
                    }
                    Err(e) => h.update(format!("err:{e}").as_bytes()),
                }
            }
        }
        Err(e) => h.update(format!("files-err:{e}").as_bytes()),
    }
    hex(&h.finalize())
}

fn observe(p: &Package, cx: &Ctx) -> Value {
    let r = guarded(|| {
        let mut ver = serde_json::Map::new();
        for k in gen_::KEYS5 {
            ver.insert(k.to_string(), json!(p.verify_signature(gen_::verifier(k)).is_ok()));
        }
        let signed_by = match p.signature_key_ids() {
            Ok(ids) if ids.len() == 1 => cx.ids.get(&ids[0]).cloned().unwrap_or_else(|| format!("other:{}", ids[0])),
            Ok(ids) if ids.is_empty() => "none-reported".to_string(),
            Ok(ids) => format!("count:{}", ids.len()),
            Err(_) => "none-reported".to_string(),
        };
        let mut bytes = vec![];
        let wrote = p.write(&mut Plain(&mut bytes)).is_ok();
        let (hs, ps) = match rawhdr::layout(&bytes) {
            Some(l) if wrote => (bytes[l.hdr_at..l.payload_at] == cx.hdr0[..], bytes[l.payload_at..] == cx.payload0[..]),
            _ => (false, false),
        };
        json!({"verifies": ver, "signed_by": signed_by, "digests_ok": p.verify_digests().is_ok(),
               "header_same": hs, "payload_same": ps, "files_same": files_token(p) == cx.files0, "panicked": false})
    });
    r.unwrap_or_else(|m| json!({"verifies": {"rsa4096":false,"rsa3072p":false,"ed25519":false,"ecdsa":false,"assetsub":false}, "signed_by":"panic",
                               "digests_ok": false, "header_same": false, "payload_same": false, "files_same": false, "panicked": true, "msg": m}))
}

fn apply(p: &Package, op: &Value) -> Result<Package, String> {
    let mut q = p.clone();
    let r = guarded(|| -> Result<(), rpm::Error> {
        match op["op"].as_str().unwrap() {
            // (the signing time is the caller's: the ECDSA key signs with a time a day ahead of this machine's clock)
            "sign" => {
                let key = op["key"].as_str().unwrap();
                let t = if key == "ecdsa" { (std::time::SystemTime::now().duration_since(std::time::UNIX_EPOCH).map(|d| d.as_secs()).unwrap_or(1_700_000_000) + 86_400) as u32 } else { 1_600_000_000u32 };
                gen_::sign_pkg(&mut q, key, t)?
            }
            "clear" => q.clear_signatures()?,
            _ => {
                // written the way a caller writing into a pipe would: the sink takes a few bytes of each request
                let mut b = vec![];
                static TURN: std::sync::atomic::AtomicUsize = std::sync::atomic::AtomicUsize::new(0);
                let take = [1usize, 7, 512, 4096, 65536][TURN.fetch_add(1, std::sync::atomic::Ordering::Relaxed) % 5];
                q.write(&mut Short(&mut b, take))?;
                // re-parse the way a caller reading from a pipe would: through a buffered reader whose buffer is small
                let cap = [1usize, 3, 8, 16, 37, 64, 256, 8192][b.len() % 8];
                q = Package::parse(&mut std::io::BufReader::with_capacity(cap, &b[..]))?;
            }
        }
        Ok(())
    });
    match r {
        Ok(Ok(())) => Ok(q),
        Ok(Err(e)) => Err(format!("error: {e}")),
        Err(m) => Err(format!("panic: {m}")),
    }
}

fn walk(start_name: &str, kind: &str, start: Package, cases: &[Value], maxlen: usize) -> Vec<Value> {
    let mut bytes = vec![];
    start.write(&mut Plain(&mut bytes)).unwrap();
    let lay = rawhdr::layout(&bytes).unwrap();
    let cx = Ctx { ids: key_id_map(), hdr0: bytes[lay.hdr_at..lay.payload_at].to_vec(), payload0: bytes[lay.payload_at..].to_vec(), files0: files_token(&start) };
    // memo: path (as string) -> (package, observation)
    let mut memo: HashMap<String, (Option<Package>, Value)> = HashMap::new();
    let obs0 = observe(&start, &cx);
    memo.insert(String::new(), (Some(start), obs0.clone()));
    let mut out = vec![];
    for c in cases {
        if c["start"] != kind { continue; }
        let ops = c["ops"].as_array().unwrap();
        if ops.len() != maxlen { continue; } // maximal histories; their prefixes are visited on the way
        out.push(json!({"event":"Start","ep_start":true,"start":kind,"pkg":start_name,"obs":obs0}));
        let mut path = String::new();
        for (i, op) in ops.iter().enumerate() {
            let parent = path.clone();
            path.push_str(&format!("/{}:{}", op["op"].as_str().unwrap(), op["key"].as_str().unwrap()));
            if !memo.contains_key(&path) {
                let entry = match &memo[&parent].0 {
                    Some(pp) => match apply(pp, op) {
                        Ok(q) => { let o = observe(&q, &cx); (Some(q), o) }
                        Err(m) => (None, json!({"verifies": {"rsa4096":false,"rsa3072p":false,"ed25519":false,"ecdsa":false,"assetsub":false}, "signed_by":"-",
                                               "digests_ok": false, "header_same": false, "payload_same": false, "files_same": false, "panicked": true, "msg": m})),
                    },
                    None => (None, memo[&parent].1.clone()),
                };
                memo.insert(path.clone(), entry);
            }
            out.push(json!({"event":"Step","pkg":start_name,"step":i + 1,"op":op["op"],"key":op["key"],"obs":memo[&path].1,
                            "expect":c["expect"][i],"path":path}));
        }
    }
    out
}

pub fn run(args: &Args) {
    let mut t = Tracer::create(args.req("out"));
    let mut rng = Rng::new(args.seed());
    let cases: Vec<Value> = std::fs::read_to_string(args.req("cases")).unwrap().lines().filter(|l| !l.trim().is_empty())
        .map(|l| serde_json::from_str(l).unwrap()).collect();
    let maxlen = cases.iter().map(|c| c["ops"].as_array().unwrap().len()).max().unwrap_or(0);
    let wd = gen_::Workdir::new("c10");
    let mut starts: Vec<(String, &str, Package)> = vec![];
    let mut c0 = gen_::rand_cfg(&mut rng, 0, 0);
    c0.files.clear();
    starts.push(("built-nofiles".into(), "none", gen_::build(&c0, &wd).expect("build")));
    let mut c1 = gen_::rand_cfg(&mut rng, 3, 500);
    if c1.files.is_empty() {
        let mut used = vec![];
        c1.files.push(gen_::rand_file(&mut rng, &mut used, 300));
    }
    starts.push(("built-files".into(), "none", gen_::build(&c1, &wd).expect("build")));
    for a in ["/repo/test_assets/ima_signed.rpm", "/repo/test_assets/fixture_packages/rpm-empty-0-0.x86_64.rpm"] {
        starts.push((a.rsplit('/').next().unwrap().to_string(), "foreign", Package::open(a).expect("asset")));
    }
    // main headers larger than any I/O buffer: many files with long paths (built), and the two big assets
    let mut c2 = gen_::rand_cfg(&mut rng, 0, 0);
    c2.files.clear();
    let mut used = vec![];
    for k in 0..(180 + rng.below(120)) {
        let mut f = gen_::rand_file(&mut rng, &mut used, 8);
        f.dest = format!("/usr/share/verif-big/{}/{}/entry-{k:04}.dat", "d".repeat(1 + (k % 40) as usize), k % 7);
        f.link = None;
        f.mode = Some(0o100644);
        c2.files.push(f);
    }
    starts.push(("built-bigheader".into(), "none", gen_::build(&c2, &wd).expect("build")));
    for a in ["/repo/test_assets/rpm-sign-4.15.1-1.fc31.x86_64.rpm", "/repo/test_assets/389-ds-base-devel-1.3.8.4-15.el7.x86_64.rpm"] {
        starts.push((a.rsplit('/').next().unwrap().to_string(), "foreign", Package::open(a).expect("asset")));
    }
    let nstarts = args.num("starts", 7) as usize;
    let handles: Vec<_> = starts.into_iter().take(nstarts).map(|(name, kind, pkg)| {
        let cs = cases.clone();
        std::thread::spawn(move || walk(&name, kind, pkg, &cs, maxlen))
    }).collect();
    for h in handles {
        match h.join() {
            Ok(evs) => for e in evs { t.emit(e); },
            Err(_) => { t.emit(json!({"event":"Panic","op":"walk"})); }
        }
    }
    t.flush();
}
