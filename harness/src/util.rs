//! Shared helpers: argument parsing, trace writer, deterministic PRNG, panic capture.
use serde_json::{Value, json};
use std::collections::HashMap;
use std::fs::File;
use std::io::{BufWriter, Write};
use std::panic::{self, AssertUnwindSafe};

pub struct Args {
    pub scenario: String,
    pub opts: HashMap<String, String>,
}

impl Args {
    pub fn parse() -> Args {
        let mut it = std::env::args().skip(1);
        let scenario = it.next().unwrap_or_else(|| {
            eprintln!("usage: rpm-verif <scenario> [--key value]...");
            std::process::exit(2)
        });
        let mut opts = HashMap::new();
        let rest: Vec<String> = it.collect();
        let mut i = 0;
        while i < rest.len() {
            let k = rest[i].trim_start_matches("--").to_string();
            let v = rest.get(i + 1).cloned().unwrap_or_default();
            opts.insert(k, v);
            i += 2;
        }
        Args { scenario, opts }
    }
    pub fn get(&self, k: &str) -> Option<&str> {
        self.opts.get(k).map(|s| s.as_str())
    }
    pub fn req(&self, k: &str) -> &str {
        self.get(k).unwrap_or_else(|| {
            eprintln!("missing --{k}");
            std::process::exit(2)
        })
    }
    pub fn seed(&self) -> u64 {
        self.get("seed").and_then(|s| s.parse().ok()).unwrap_or(1)
    }
    pub fn thorough(&self) -> bool {
        self.get("tier") == Some("thorough")
    }
    pub fn num(&self, k: &str, default: u64) -> u64 {
        self.get(k).and_then(|s| s.parse().ok()).unwrap_or(default)
    }
}

/// ndjson trace writer; every event gets a unique, strictly increasing `id` (per-process sequence
/// number - never wall-clock time).
pub struct Tracer {
    out: BufWriter<File>,
    pub next_id: u64,
}

impl Tracer {
    pub fn create(path: &str) -> Tracer {
        Tracer { out: BufWriter::new(File::create(path).expect("create trace")), next_id: 1 }
    }
    pub fn emit(&mut self, mut ev: Value) -> u64 {
        let id = self.next_id;
        self.next_id += 1;
        ev.as_object_mut().expect("event object").insert("id".into(), json!(id));
        serde_json::to_writer(&mut self.out, &ev).expect("write trace");
        self.out.write_all(b"\n").expect("write trace");
        id
    }
    pub fn flush(&mut self) {
        self.out.flush().expect("flush trace");
    }
}

impl Drop for Tracer {
    fn drop(&mut self) {
        let _ = self.out.flush();
    }
}

/// splitmix64 / xorshift PRNG: deterministic from VERIF_SEED, no external crate.
#[derive(Clone)]
pub struct Rng(pub u64);
impl Rng {
    pub fn new(seed: u64) -> Rng {
        Rng(seed.wrapping_mul(0x9E3779B97F4A7C15) ^ 0xD1B54A32D192ED03)
    }
    pub fn next(&mut self) -> u64 {
        self.0 = self.0.wrapping_add(0x9E3779B97F4A7C15);
        let mut z = self.0;
        z = (z ^ (z >> 30)).wrapping_mul(0xBF58476D1CE4E5B9);
        z = (z ^ (z >> 27)).wrapping_mul(0x94D049BB133111EB);
        z ^ (z >> 31)
    }
    pub fn below(&mut self, n: u64) -> u64 {
        if n == 0 { 0 } else { self.next() % n }
    }
    pub fn range(&mut self, lo: i64, hi: i64) -> i64 {
        lo + self.below((hi - lo + 1) as u64) as i64
    }
    pub fn chance(&mut self, num: u64, den: u64) -> bool {
        self.below(den) < num
    }
    pub fn pick<'a, T>(&mut self, xs: &'a [T]) -> &'a T {
        &xs[self.below(xs.len() as u64) as usize]
    }
    pub fn bytes(&mut self, n: usize) -> Vec<u8> {
        let mut v = Vec::with_capacity(n);
        while v.len() < n {
            let x = self.next().to_le_bytes();
            let take = (n - v.len()).min(8);
            v.extend_from_slice(&x[..take]);
        }
        v
    }
}

/// Install a silent panic hook (panics of the code under test are data, not noise).
pub fn quiet_panics() {
    if std::env::var_os("RPM_VERIF_LOUD").is_some() {
        return;
    }
    panic::set_hook(Box::new(|_| {}));
}

/// Run `f`, converting a panic into Err(message).
pub fn guarded<T>(f: impl FnOnce() -> T) -> Result<T, String> {
    match panic::catch_unwind(AssertUnwindSafe(f)) {
        Ok(v) => Ok(v),
        Err(e) => {
            let msg = if let Some(s) = e.downcast_ref::<&str>() {
                s.to_string()
            } else if let Some(s) = e.downcast_ref::<String>() {
                s.clone()
            } else {
                "panic".to_string()
            };
            Err(msg)
        }
    }
}

pub fn codes(s: &str) -> Vec<u32> {
    s.chars().map(|c| c as u32).collect()
}

pub fn from_codes(cs: &[u32]) -> String {
    cs.iter().map(|&c| char::from_u32(c).unwrap_or('?')).collect()
}

pub fn ord_i(o: std::cmp::Ordering) -> i32 {
    match o {
        std::cmp::Ordering::Less => -1,
        std::cmp::Ordering::Equal => 0,
        std::cmp::Ordering::Greater => 1,
    }
}

/// Canonical enumeration shared with spec/RpmVerCmp.tla (NthStr): index 0 = "", then all strings
/// of length 1 in alphabet order, length 2, ...
pub fn dom_size(k: usize, maxlen: usize) -> usize {
    (0..=maxlen).map(|l| k.pow(l as u32)).sum()
}
pub fn nth_str(alpha: &[u32], mut idx: usize) -> Vec<u32> {
    let k = alpha.len();
    let mut len = 0;
    loop {
        let cnt = k.pow(len as u32);
        if idx < cnt {
            break;
        }
        idx -= cnt;
        len += 1;
    }
    let mut out = vec![0u32; len];
    for p in (0..len).rev() {
        out[p] = alpha[idx % k];
        idx /= k;
    }
    out
}

pub fn hex(b: &[u8]) -> String {
    ::hex::encode(b)
}

/// A sink that implements nothing but `write` and `flush` (so every provided method of the trait -
/// write_all, write_vectored, ... - is the standard library's default): what a hashing writer, an
/// encoder or a socket wrapper looks like to the library, unlike `Vec<u8>` which overrides them.
pub struct Plain<'a>(pub &'a mut Vec<u8>);
impl std::io::Write for Plain<'_> {
    fn write(&mut self, b: &[u8]) -> std::io::Result<usize> {
        self.0.extend_from_slice(b);
        Ok(b.len())
    }
    fn flush(&mut self) -> std::io::Result<()> {
        Ok(())
    }
}

/// like `Plain`, but accepts at most `0` bytes per call (a pipe or socket that takes what fits)
pub struct Short<'a>(pub &'a mut Vec<u8>, pub usize);
impl std::io::Write for Short<'_> {
    fn write(&mut self, b: &[u8]) -> std::io::Result<usize> {
        let k = b.len().min(self.1.max(1));
        self.0.extend_from_slice(&b[..k]);
        Ok(k)
    }
    fn flush(&mut self) -> std::io::Result<()> {
        Ok(())
    }
}

/// a device with room for `1` bytes: takes what fits, then reports that it is full
pub struct Limited<'a>(pub &'a mut Vec<u8>, pub usize);
impl std::io::Write for Limited<'_> {
    fn write(&mut self, b: &[u8]) -> std::io::Result<usize> {
        let room = self.1.saturating_sub(self.0.len());
        if room == 0 && !b.is_empty() {
            return Err(std::io::Error::new(std::io::ErrorKind::Other, "no space left on device"));
        }
        let k = b.len().min(room);
        self.0.extend_from_slice(&b[..k]);
        Ok(k)
    }
    fn flush(&mut self) -> std::io::Result<()> {
        Ok(())
    }
}
