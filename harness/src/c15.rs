//! C15: textual round trips of EVR / NEVRA / CompressionType and the no-panic family.
use crate::util::*;
use rpm::{CompressionType, Evr, Nevra};
use serde_json::json;
use std::str::FromStr;

fn strs(alpha: &str, maxlen: usize, with_empty: bool) -> Vec<String> {
    let a: Vec<u32> = alpha.chars().map(|c| c as u32).collect();
    let n = dom_size(a.len(), maxlen);
    (if with_empty { 0 } else { 1 }..n).map(|i| from_codes(&nth_str(&a, i))).collect()
}

fn nevra_event(n: &str, e: &str, v: &str, r: &str, a: &str) -> serde_json::Value {
    let res = guarded(|| {
        let x = Nevra::new(n, e, v, r, a);
        let text = x.to_string();
        let norm = x.as_normalized_form();
        let p = Nevra::parse(&text);
        let eq = p == x && x == p;      // equality in both operand orders
        let pn_ = Nevra::parse(&norm);
        let norm_eq = pn_ == x && x == pn_;   // the normalised form is a text form too: it parses back to an equal value
        let (pn, pe, pv, pr, pa) = p.values();
        json!({"event":"NevraRT",
               "x":{"n":codes(n),"e":codes(e),"v":codes(v),"r":codes(r),"a":codes(a)},
               "text":codes(&text),"norm":codes(&norm),
               "parsed":{"n":codes(pn),"e":codes(pe),"v":codes(pv),"r":codes(pr),"a":codes(pa)},
               "reparsed_eq":eq,"norm_eq":norm_eq})
    });
    res.unwrap_or_else(|m| json!({"event":"Panic","op":"nevra","n":n,"v":v,"msg":m}))
}

fn evr_event(e: &str, v: &str, r: &str) -> serde_json::Value {
    let res = guarded(|| {
        let x = Evr::new(e, v, r);
        let text = x.to_string();
        let norm = x.as_normalized_form();
        let p = Evr::parse(&text);
        let eq = p == x && x == p;      // equality in both operand orders
        let pn_ = Evr::parse(&norm);
        let norm_eq = pn_ == x && x == pn_;
        let (pe, pv, pr) = p.values();
        json!({"event":"EvrRT","x":{"e":codes(e),"v":codes(v),"r":codes(r)},
               "text":codes(&text),"norm":codes(&norm),
               "parsed":{"e":codes(pe),"v":codes(pv),"r":codes(pr)},"reparsed_eq":eq,"norm_eq":norm_eq})
    });
    res.unwrap_or_else(|m| json!({"event":"Panic","op":"evr","v":v,"msg":m}))
}

pub fn run(args: &Args) {
    let mut t = Tracer::create(args.req("out"));
    let mut rng = Rng::new(args.seed());
    let namelen = args.num("namelen", 2) as usize;
    let names = strs("a1-.", namelen, false);
    let epochs = ["", "0", "7", "12"];
    let versions = strs("1.a~^", 2, false);
    let releases = strs("1.a", 2, false);
    let arches = ["x", "x86_64", "noarch"];
    for n in &names {
        for e in epochs {
            for v in &versions {
                for r in &releases {
                    for a in arches {
                        t.emit(nevra_event(n, e, v, r, a));
                    }
                }
            }
        }
    }
    for e in epochs {
        for v in &versions {
            for r in &releases {
                t.emit(evr_event(e, v, r));
            }
        }
    }
    // NEVRAs of the repository's asset packages and some well-known shapes
    for (n, e, v, r, a) in [
        ("389-ds-base-devel", "", "1.3.8.4", "15.el7", "x86_64"),
        ("freesrp-udev", "", "0.3.0", "1.25", "x86_64"),
        ("rpm-sign", "", "4.15.1", "1.fc31", "x86_64"),
        ("rpm-empty", "", "0", "0", "x86_64"),
        ("ima_signed", "", "1.0", "1", "noarch"),
        ("python3.9", "1", "3.9.11", "2.fc38", "x86_64"),
        ("gtk2-immodule-xim", "0", "2.24.33", "15.fc39", "i686"),
        ("a-1-2", "3", "4~rc1^git5", "6.el9_2", "noarch"),
        ("lib-.x", "", "1", "1", "s390x"),
        // not "real": component values a package cannot carry - only the text form is checked
        ("", "", "", "", ""), ("a", "", "1-1", "1", "x"), ("a", "", "1", "1-1", "x"), ("a", "x", "1:2", "1", "x.y"),
    ] {
        t.emit(nevra_event(n, e, v, r, a));
        t.emit(evr_event(e, v, r));
    }
    // compression types
    for ct in [CompressionType::None, CompressionType::Gzip, CompressionType::Zstd, CompressionType::Xz, CompressionType::Bzip2] {
        let text = ct.to_string();
        let p = guarded(|| CompressionType::from_str(&text));
        let (ok, same) = match p {
            Ok(Ok(c)) => (true, c == ct),
            _ => (false, false),
        };
        t.emit(json!({"event":"CtRT","text":text,"parse_ok":ok,"same":same}));
    }
    // the same from a build of the library without any optional feature (events produced by harness-min)
    if let Some(f) = args.get("extra") {
        for line in std::fs::read_to_string(f).unwrap_or_default().lines() {
            if let Ok(v) = serde_json::from_str::<serde_json::Value>(line) {
                if v.is_object() { t.emit(v); }
            }
        }
    }
    // no-panic family: arbitrary text through every parser
    let pool: Vec<char> = "a1-.:~^ _/\\\0é日\u{1F600}x86noarch0".chars().collect();
    let nrand = args.num("random", 20000);
    for _ in 0..nrand {
        let len = rng.below(24) as usize;
        let s: String = (0..len).map(|_| *rng.pick(&pool)).collect();
        let r = guarded(|| {
            let n = Nevra::parse(&s);
            let _ = n.to_string();
            let _ = n.as_normalized_form();
            let _ = n.nvra();
            let e = Evr::parse(&s);
            let _ = e.to_string();
            let _ = e.as_normalized_form();
            let _ = Nevra::parse_values(&s);
            let _ = Evr::parse_values(&s);
            let _ = CompressionType::from_str(&s);
        });
        match r {
            Ok(()) => t.emit(json!({"event":"ParseAny","returned":true})),
            Err(m) => t.emit(json!({"event":"Panic","op":"parse-any","text":codes(&s),"msg":m})),
        };
    }
    t.flush();
}
