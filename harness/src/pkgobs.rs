//! ObservePackage: hand a byte string to the library's parser and record everything the
//! specification (spec/Trace_Pkg.tla) judges: acceptance, the written bytes relative to the input,
//! re-parse / re-write, reported offsets, accessor results, recorded vs recomputed digests.
use crate::rawhdr;
use crate::util::*;
use rpm::{Error, IndexTag, Package, PackageMetadata};
use serde_json::{Value, json};
use sha2::{Digest, Sha256};
use std::io::Read;

pub const INLINE_LIMIT: usize = 24 * 1024;

pub fn b(s: &str) -> Value {
    json!(s.as_bytes())
}
pub fn u32d(v: u32) -> Value {
    json!([v >> 16, v & 0xFFFF])
}
pub fn u64d(v: u64) -> Value {
    json!([(v >> 48) & 0xFFFF, (v >> 32) & 0xFFFF, (v >> 16) & 0xFFFF, v & 0xFFFF])
}
pub fn err_name(e: &Error) -> String {
    let d = format!("{:?}", e);
    d.chars().take_while(|c| c.is_ascii_alphanumeric()).collect()
}
fn res<T>(r: Result<Result<T, Error>, String>, f: impl FnOnce(T) -> Value) -> Value {
    match r {
        Ok(Ok(v)) => json!({"ok": f(v)}),
        Ok(Err(e)) => json!({"err": err_name(&e)}),
        Err(m) => json!({"panic": m}),
    }
}

fn dep_list(v: Vec<rpm::Dependency>) -> Value {
    Value::Array(v.iter().map(|d| json!({"a": b(&d.name), "b": u32d(d.flags.bits()), "c": b(&d.version)})).collect())
}

fn scriptlet(s: rpm::Scriptlet) -> Value {
    json!({"script": b(&s.script),
           "flags": match s.flags { Some(f) => json!({"some": u32d(f.bits())}), None => json!({"none": true}) },
           "prog": match s.program { Some(p) => json!({"some": p.iter().map(|x| b(x)).collect::<Vec<_>>()}), None => json!({"none": true}) }})
}

/// every metadata accessor, rendered for spec/PackageFile.tla's accessor table
pub fn all_gets(m: &PackageMetadata) -> Vec<Value> {
    let mut out = vec![];
    macro_rules! s {
        ($name:literal, $call:expr) => {
            out.push(json!({"acc": $name, "res": res(guarded(|| $call.map(|x| x.to_string())), |x: String| b(&x))}));
        };
    }
    s!("get_name", m.get_name());
    s!("get_version", m.get_version());
    s!("get_release", m.get_release());
    s!("get_arch", m.get_arch());
    s!("get_vendor", m.get_vendor());
    s!("get_url", m.get_url());
    s!("get_vcs", m.get_vcs());
    s!("get_license", m.get_license());
    s!("get_summary", m.get_summary());
    s!("get_description", m.get_description());
    s!("get_group", m.get_group());
    s!("get_packager", m.get_packager());
    s!("get_build_host", m.get_build_host());
    s!("get_cookie", m.get_cookie());
    s!("get_source_rpm", m.get_source_rpm());
    out.push(json!({"acc":"get_epoch","res":res(guarded(|| m.get_epoch()), u32d)}));
    out.push(json!({"acc":"get_build_time","res":res(guarded(|| m.get_build_time()), |v| u32d(v as u32))}));
    out.push(json!({"acc":"get_installed_size","res":res(guarded(|| m.get_installed_size()), u64d)}));
    out.push(json!({"acc":"is_source_package","res":res(guarded(|| Ok(m.is_source_package())), |v| json!(v))}));
    out.push(json!({"acc":"get_payload_compressor","res":res(guarded(|| m.get_payload_compressor()), |c| json!(c.to_string()))}));
    macro_rules! d {
        ($name:literal, $call:expr) => {
            out.push(json!({"acc": $name, "res": res(guarded(|| $call), dep_list)}));
        };
    }
    d!("get_provides", m.get_provides());
    d!("get_requires", m.get_requires());
    d!("get_conflicts", m.get_conflicts());
    d!("get_obsoletes", m.get_obsoletes());
    d!("get_recommends", m.get_recommends());
    d!("get_suggests", m.get_suggests());
    d!("get_enhances", m.get_enhances());
    d!("get_supplements", m.get_supplements());
    macro_rules! sc {
        ($name:literal, $call:expr) => {
            out.push(json!({"acc": $name, "res": res(guarded(|| $call), scriptlet)}));
        };
    }
    sc!("get_pre_install_script", m.get_pre_install_script());
    sc!("get_post_install_script", m.get_post_install_script());
    sc!("get_pre_uninstall_script", m.get_pre_uninstall_script());
    sc!("get_post_uninstall_script", m.get_post_uninstall_script());
    sc!("get_pre_trans_script", m.get_pre_trans_script());
    sc!("get_post_trans_script", m.get_post_trans_script());
    sc!("get_pre_untrans_script", m.get_pre_untrans_script());
    sc!("get_post_untrans_script", m.get_post_untrans_script());
    out.push(json!({"acc":"get_changelog_entries","res":res(guarded(|| m.get_changelog_entries()), |v| {
        Value::Array(v.iter().map(|c| json!({"a": b(&c.name), "b": u32d(c.timestamp as u32), "c": b(&c.description)})).collect())
    })}));
    out.push(json!({"acc":"get_file_entries","res":res(guarded(|| m.get_file_entries()), |v| {
        Value::Array(v.iter().map(|e| json!({
            "path": b(&e.path.to_string_lossy()), "user": b(&e.ownership.user), "group": b(&e.ownership.group),
            "mode": e.mode.raw_mode(), "mtime": u32d(e.modified_at.0), "size": u64d(e.size as u64), "flags": u32d(e.flags.bits()),
            "linkto": b(&e.linkto),
            "digest": match &e.digest { Some(d) => json!({"some": d.as_hex().as_bytes()}), None => json!({"none": true}) },
            "caps": match &e.caps { Some(c) => json!({"some": c.as_bytes()}), None => json!({"none": true}) },
            "ima": match &e.ima_signature { Some(c) => json!({"some": c.as_bytes()}), None => json!({"none": true}) },
        })).collect())
    })}));
    out.push(json!({"acc":"get_file_paths","res":res(guarded(|| m.get_file_paths()), |v| {
        Value::Array(v.iter().map(|p| b(&p.to_string_lossy())).collect())
    })}));
    out
}

/// Header::get_entry_data_as_* on one tag of the main header
pub fn raw_gets(m: &PackageMetadata, tag: IndexTag, tagno: u32) -> Vec<Value> {
    let h = &m.header;
    let mut out = vec![];
    out.push(json!({"acc":"raw","raw":"string","tag":tagno,"res":res(guarded(|| h.get_entry_data_as_string(tag).map(|s| s.to_string())), |s: String| b(&s))}));
    out.push(json!({"acc":"raw","raw":"i18n","tag":tagno,"res":res(guarded(|| h.get_entry_data_as_i18n_string(tag).map(|s| s.to_string())), |s: String| b(&s))}));
    out.push(json!({"acc":"raw","raw":"strings","tag":tagno,"res":res(guarded(|| h.get_entry_data_as_string_array(tag).map(|s| s.to_vec())), |v: Vec<String>| Value::Array(v.iter().map(|x| b(x)).collect()))}));
    out.push(json!({"acc":"raw","raw":"u32","tag":tagno,"res":res(guarded(|| h.get_entry_data_as_u32(tag)), u32d)}));
    out.push(json!({"acc":"raw","raw":"u64","tag":tagno,"res":res(guarded(|| h.get_entry_data_as_u64(tag)), u64d)}));
    out.push(json!({"acc":"raw","raw":"u16s","tag":tagno,"res":res(guarded(|| h.get_entry_data_as_u16_array(tag)), |v| json!(v))}));
    out.push(json!({"acc":"raw","raw":"u32s","tag":tagno,"res":res(guarded(|| h.get_entry_data_as_u32_array(tag)), |v| Value::Array(v.into_iter().map(u32d).collect()))}));
    out.push(json!({"acc":"raw","raw":"u64s","tag":tagno,"res":res(guarded(|| h.get_entry_data_as_u64_array(tag)), |v| Value::Array(v.into_iter().map(u64d).collect()))}));
    out.push(json!({"acc":"raw","raw":"binary","tag":tagno,"res":res(guarded(|| h.get_entry_data_as_binary(tag).map(|x| x.to_vec())), |v| json!(v))}));
    out
}

pub struct Opts {
    pub origin: String,
    pub emitted: bool,
    pub gets: bool,
    pub digests: bool,
    pub raw_tags: Vec<(IndexTag, u32)>,
    pub off_mem: Option<rpm::PackageSegmentOffsets>,
    /// also go through the path-based API (Package::open, PackageMetadata::open, write_file)
    pub file_api: bool,
}
impl Opts {
    pub fn new(origin: &str) -> Opts {
        Opts { origin: origin.to_string(), emitted: false, gets: false, digests: false, raw_tags: vec![], off_mem: None, file_api: false }
    }
}

/// a buffered source whose buffer ends at `cut` (and then holds the rest)
struct SplitSource<'a> {
    data: &'a [u8],
    pos: usize,
    cut: usize,
}
impl std::io::Read for SplitSource<'_> {
    fn read(&mut self, buf: &mut [u8]) -> std::io::Result<usize> {
        let avail = std::io::BufRead::fill_buf(self)?;
        let n = avail.len().min(buf.len());
        buf[..n].copy_from_slice(&avail[..n]);
        self.pos += n;
        Ok(n)
    }
}
impl std::io::BufRead for SplitSource<'_> {
    fn fill_buf(&mut self) -> std::io::Result<&[u8]> {
        Ok(if self.pos < self.cut { &self.data[self.pos..self.cut] } else { &self.data[self.pos..] })
    }
    fn consume(&mut self, n: usize) {
        self.pos = (self.pos + n).min(self.data.len());
    }
}

fn off_json(o: &rpm::PackageSegmentOffsets) -> Value {
    json!({"lead": o.lead, "sig": o.signature_header, "hdr": o.header, "payload": o.payload})
}

pub fn sha256_hex(x: &[u8]) -> String {
    hex(&Sha256::digest(x))
}

pub fn decompress(name: &str, data: &[u8]) -> Option<Vec<u8>> {
    let mut out = vec![];
    match name {
        "none" => out.extend_from_slice(data),
        "gzip" => { flate2::read::MultiGzDecoder::new(data).read_to_end(&mut out).ok()?; }
        "zstd" => { zstd::stream::read::Decoder::new(data).ok()?.read_to_end(&mut out).ok()?; }
        "xz" => { liblzma::read::XzDecoder::new(data).read_to_end(&mut out).ok()?; }
        "bzip2" => { bzip2::read::MultiBzDecoder::new(data).read_to_end(&mut out).ok()?; }
        _ => return None,
    }
    Some(out)
}

/// recorded vs independently recomputed digests (the harness's own range finding, decoding,
/// decompression and hashing); `files` is filled by the payload scanner when available
pub fn digests(input: &[u8], files: Vec<Value>) -> Option<Value> {
    let lay = rawhdr::layout(input)?;
    let hdr_bytes = &input[lay.hdr_at..lay.payload_at];
    let payload = &input[lay.payload_at..];
    let rec_sha256 = lay.sig.string(input, 273).unwrap_or_else(|| "<absent>".into());
    let rec_payload = lay.hdr.strings(input, 5092).and_then(|v| v.first().map(|s| String::from_utf8_lossy(s).to_string())).unwrap_or_else(|| "<absent>".into());
    let rec_alt = lay.hdr.strings(input, 5097).and_then(|v| v.first().map(|s| String::from_utf8_lossy(s).to_string())).unwrap_or_else(|| "<absent>".into());
    let algo = lay.hdr.u32s(input, 5093).and_then(|v| v.first().copied()).unwrap_or(0);
    let comp = lay.hdr.string(input, 1125).unwrap_or_else(|| "none".into());
    let raw = decompress(&comp, payload);
    Some(json!({
        "hdr_range": [lay.hdr_at, lay.payload_at],
        "sha256_header": {"rec": rec_sha256, "calc": sha256_hex(hdr_bytes)},
        "payload": {"rec": rec_payload, "calc": sha256_hex(payload)},
        "payload_algo": algo,
        "payload_alt": {"rec": rec_alt, "calc": raw.as_ref().map(|r| sha256_hex(r)).unwrap_or_else(|| "<undecodable>".into())},
        "compressor": comp,
        "files": files,
    }))
}

pub fn observe(input: &[u8], o: &Opts) -> Value {
    let lay = rawhdr::layout(input);
    // what the spec gets to see of the input: all of it when small, else the metadata prefix
    let (prefix_len, cut) = match &lay {
        Some(l) if input.len() > INLINE_LIMIT && l.payload_at <= input.len() => (l.payload_at, true),
        _ => (input.len(), false),
    };
    let mut ev = json!({"event":"Pkg","origin":o.origin,"emitted":o.emitted,"input":&input[..prefix_len],
                        "input_len":input.len(),"cut":cut});
    if let Some(om) = &o.off_mem {
        ev["off_mem"] = off_json(om);
    }
    let parsed = guarded(|| Package::parse(&mut &input[..]));
    let pkg = match parsed {
        Err(m) => {
            ev["event"] = json!("Panic");
            ev["msg"] = json!(m);
            ev["input"] = json!(&input[..prefix_len.min(4096)]);
            return ev;
        }
        Ok(Err(e)) => {
            ev["accepted"] = json!(false);
            ev["err"] = json!(err_name(&e));
            ev["content_len"] = json!(0);
            return ev;
        }
        Ok(Ok(p)) => p,
    };
    ev["accepted"] = json!(true);
    if o.gets {
        // the same bytes handed over by a buffered source whose buffer ends at each position around the end of the
        // signature header (inside its alignment padding, at the intro of the main header): the same package
        let cuts: Vec<usize> = match rawhdr::layout(input) {
            Some(l) => (l.hdr_at.saturating_sub(9)..=(l.hdr_at + 17).min(input.len())).chain([95usize, 97, 112]).collect(),
            None => vec![95, 97, 112],
        };
        let same = guarded(|| cuts.iter().all(|&c| {
            let mut src = SplitSource { data: input, pos: 0, cut: c.min(input.len()) };
            matches!(Package::parse(&mut src), Ok(p) if p.metadata == pkg.metadata && p.content == pkg.content)
        }));
        ev["accepted_split"] = json!(same.unwrap_or(false));
    }
    let differing: std::cell::RefCell<Option<Vec<u8>>> = std::cell::RefCell::new(None);
    let differing_short: std::cell::RefCell<Option<Vec<u8>>> = std::cell::RefCell::new(None);
    let differing_limited: std::cell::RefCell<Option<Vec<u8>>> = std::cell::RefCell::new(None);
    let r = guarded(|| -> Result<Value, Error> {
        let mut written = vec![];
        pkg.write(&mut Plain(&mut written))?;
        if written != input {
            *differing.borrow_mut() = Some(written.clone());
        }
        // the same object writing into a sink that takes a few bytes per call: these bytes, too, are "the bytes
        // produced by writing the package" which the reported offsets have to describe
        let mut short = vec![];
        pkg.write(&mut Short(&mut short, 3))?;
        // ... and into a device that is full one byte (or a hundred bytes) before the end: a write that reports success
        // has produced bytes as well
        for room in [written.len().saturating_sub(1), written.len().saturating_sub(100)] {
            let mut lim = vec![];
            if pkg.write(&mut Limited(&mut lim, room)).is_ok() && lim != written && differing_limited.borrow().is_none() {
                *differing_limited.borrow_mut() = Some(lim);
            }
        }
        let short_equal = short == written;
        if !short_equal {
            *differing_short.borrow_mut() = Some(short);
        }
        let pkg2 = Package::parse(&mut &written[..])?;
        let reparsed_equal = pkg2.metadata == pkg.metadata && pkg2.content == pkg.content;
        let mut rewritten = vec![];
        pkg2.write(&mut Plain(&mut rewritten))?;
        // the metadata-only entry points must agree with the package ones
        let meta = PackageMetadata::parse(&mut &input[..])?;
        let mut mw = vec![];
        meta.write(&mut Plain(&mut mw))?;
        let meta_ok = meta == pkg.metadata && written.len() >= mw.len() && written[..mw.len()] == mw[..]
            && written.len() - mw.len() == pkg.content.len();
        let mut diff = vec![];
        for p in 0..prefix_len.min(written.len()) {
            if written[p] != input[p] && diff.len() < 64 {
                diff.push(json!([p, written[p]]));
            }
        }
        let tail_equal = written.len() >= prefix_len && written[prefix_len..] == input[prefix_len..];
        let mut file_api_equal = true;
        if o.file_api {
            // the path-based entry points are the same functions over a file
            let dir = std::env::temp_dir().join(format!("rpm_verif_fileapi_{}", std::process::id()));
            std::fs::create_dir_all(&dir)?;
            let (pin, pout) = (dir.join("in.rpm"), dir.join("out.rpm"));
            std::fs::write(&pin, input)?;
            let opened = Package::open(&pin)?;
            let opened_meta = PackageMetadata::open(&pin)?;
            opened.write_file(&pout)?;
            let rewritten_file = std::fs::read(&pout)?;
            file_api_equal = opened.metadata == pkg.metadata && opened.content == pkg.content
                && opened_meta == pkg.metadata && rewritten_file == written;
            // ... also when the path names something that is not a regular file: a FIFO fed by another thread
            let fifo = dir.join("in.fifo");
            let cpath = std::ffi::CString::new(fifo.to_string_lossy().as_bytes()).unwrap();
            if unsafe { libc::mkfifo(cpath.as_ptr(), 0o600) } == 0 {
                let (data, fpath) = (input.to_vec(), fifo.clone());
                let feeder = std::thread::spawn(move || {
                    if let Ok(mut f) = std::fs::OpenOptions::new().write(true).open(&fpath) {
                        use std::io::Write;
                        let _ = f.write_all(&data);
                    }
                });
                let via_fifo = Package::open(&fifo);
                // whatever open() did, let the feeder finish (drain what it still wants to write)
                if !feeder.is_finished() {
                    use std::os::unix::fs::OpenOptionsExt;
                    if let Ok(mut r) = std::fs::OpenOptions::new().read(true).custom_flags(libc::O_NONBLOCK).open(&fifo) {
                        let mut buf = [0u8; 65536];
                        for _ in 0..5000 {
                            if feeder.is_finished() { break; }
                            let _ = std::io::Read::read(&mut r, &mut buf);
                            std::thread::sleep(std::time::Duration::from_millis(1));
                        }
                    }
                }
                let _ = feeder.join();
                file_api_equal = file_api_equal && matches!(&via_fifo, Ok(p) if p.metadata == pkg.metadata && p.content == pkg.content);
            }
            let _ = std::fs::remove_dir_all(&dir);
        }
        Ok(json!({"written_len": written.len(), "diff": diff, "tail_equal": tail_equal,
                  "reparsed_equal": reparsed_equal && meta_ok && file_api_equal, "rewritten_equal": rewritten == written, "short_equal": short_equal,
                  "off": off_json(&pkg.metadata.get_package_segment_offsets()),
                  "content_len": pkg.content.len()}))
    });
    match r {
        Ok(Ok(v)) => {
            for (k, x) in v.as_object().unwrap() {
                ev[k.as_str()] = x.clone();
            }
        }
        Ok(Err(e)) => {
            // accepted once but not writable / re-parsable: a round-trip failure the spec rejects
            ev["written_len"] = json!(0);
            ev["diff"] = json!([]);
            ev["tail_equal"] = json!(false);
            ev["reparsed_equal"] = json!(false);
            ev["rewritten_equal"] = json!(false);
            ev["off"] = off_json(&pkg.metadata.get_package_segment_offsets());
            ev["content_len"] = json!(pkg.content.len());
            ev["err"] = json!(err_name(&e));
        }
        Err(m) => {
            ev["event"] = json!("Panic");
            ev["msg"] = json!(m);
            return ev;
        }
    }
    if o.gets {
        let mut gets = all_gets(&pkg.metadata);
        for (t, n) in &o.raw_tags {
            gets.extend(raw_gets(&pkg.metadata, *t, *n));
        }
        if gets.iter().any(|g| g["res"].get("panic").is_some()) {
            ev["event"] = json!("Panic");
            ev["msg"] = json!(gets.iter().filter(|g| g["res"].get("panic").is_some()).map(|g| format!("{}: {}", g["acc"], g["res"]["panic"])).collect::<Vec<_>>());
        }
        ev["gets"] = Value::Array(gets);
    }
    if o.digests {
        if let Some(d) = digests(input, vec![]) {
            ev["dig"] = d;
        }
    }
    if let Some(w) = differing.into_inner() {
        // the written bytes are not the input: they are a package in their own right, written by
        // the parsed object whose reported offsets must describe *them* (C16)
        ev["written_bytes"] = json!(hex(&w));
    }
    if let Some(w) = differing_short.into_inner() {
        ev["written_short_bytes"] = json!(hex(&w));
    }
    if let Some(w) = differing_limited.into_inner() {
        ev["written_limited_bytes"] = json!(hex(&w));
    }
    ev
}

/// observe `input`; when the library wrote back something different, observe that as well, with the
/// offsets reported by the object that wrote it
pub fn observe_all(input: &[u8], o: &Opts) -> Vec<Value> {
    let mut ev = observe(input, o);
    let mut out = vec![];
    let w = ev.as_object_mut().and_then(|m| m.remove("written_bytes"));
    let ws = ev.as_object_mut().and_then(|m| m.remove("written_short_bytes"));
    let wl = ev.as_object_mut().and_then(|m| m.remove("written_limited_bytes"));
    let off = ev.get("off").cloned();
    out.push(ev);
    for (ws, label) in [(ws, "shortwrite"), (wl, "fulldevice")] {
    if let (Some(Value::String(h)), Some(off)) = (ws, off.clone()) {
        if let Ok(bytes) = ::hex::decode(h) {
            let mut o2 = Opts::new(&format!("{label}:{}", o.origin));
            o2.off_mem = Some(rpm::PackageSegmentOffsets {
                lead: off["lead"].as_u64().unwrap_or(0),
                signature_header: off["sig"].as_u64().unwrap_or(0),
                header: off["hdr"].as_u64().unwrap_or(0),
                payload: off["payload"].as_u64().unwrap_or(0),
            });
            let mut e2 = observe(&bytes, &o2);
            e2.as_object_mut().map(|m| { m.remove("written_bytes"); m.remove("written_short_bytes"); m.remove("written_limited_bytes"); });
            e2["content_len_mem"] = out[0]["content_len"].clone();
            out.push(e2);
        }
    }
    }
    if let (Some(Value::String(h)), Some(off)) = (w, off) {
        if let Ok(bytes) = ::hex::decode(h) {
            let mut o2 = Opts::new(&format!("rewritten:{}", o.origin));
            o2.off_mem = Some(rpm::PackageSegmentOffsets {
                lead: off["lead"].as_u64().unwrap_or(0),
                signature_header: off["sig"].as_u64().unwrap_or(0),
                header: off["hdr"].as_u64().unwrap_or(0),
                payload: off["payload"].as_u64().unwrap_or(0),
            });
            let mut e2 = observe(&bytes, &o2);
            e2.as_object_mut().map(|m| { m.remove("written_bytes"); m.remove("written_short_bytes"); m.remove("written_limited_bytes"); });
            // the payload the writing object holds (the written bytes themselves may not parse)
            e2["content_len_mem"] = out[0]["content_len"].clone();
            out.push(e2);
        }
    }
    out
}
