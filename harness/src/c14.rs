//! C14 (+ the hashing-writer clause of C08): serialisation into scripted sinks and parsing from
//! scripted sources.  The sink knows the canonical bytes (written into a Vec first) only to report,
//! per write() call, whether the offered buffer continues them at the position it stands at.
use crate::cfggen as gen_;
use crate::pkg::asset_paths;
use crate::rawhdr;
use crate::util::*;
use rpm::{Package, PackageMetadata, Sha256Writer};
use serde_json::{Value, json};
use sha2::{Digest, Sha256};
use std::io::{self, BufRead, Read, Write};

#[derive(Clone)]
enum Mode {
    Chunk(usize),        // accept at most k bytes per call
    Random(u64),         // seeded sizes 1..=17
    FailAt(usize),       // accept everything up to this offset, then fail
    ZeroAt(usize),       // ... then return Ok(0)
    Interrupts(usize, usize), // chunk k, every n-th call reports Interrupted first
}

struct Sink<'a> {
    canonical: &'a [u8],
    emitted: Vec<u8>,
    mode: Mode,
    rng: Rng,
    calls: usize,
    all_at_pos: bool,
    failed: bool,
    zero_streak: usize,
    detail: Option<Vec<Value>>,
}

impl<'a> Sink<'a> {
    fn new(canonical: &'a [u8], mode: Mode, detail: bool) -> Sink<'a> {
        let seed = if let Mode::Random(s) = mode { s } else { 1 };
        Sink { canonical, emitted: vec![], mode, rng: Rng::new(seed), calls: 0, all_at_pos: true, failed: false, zero_streak: 0, detail: if detail { Some(vec![]) } else { None } }
    }
}

impl Write for Sink<'_> {
    fn write(&mut self, buf: &[u8]) -> io::Result<usize> {
        self.calls += 1;
        let pos = self.emitted.len();
        // a writer that re-sends without end never returns: stop it here (reported as a panic of the run)
        if pos > 4 * self.canonical.len() + 65536 || self.calls > 50_000_000 {
            panic!("runaway writer: {} bytes emitted in {} calls for {} canonical bytes", pos, self.calls, self.canonical.len());
        }
        let at_pos = self.canonical.len() >= pos + buf.len() && self.canonical[pos..pos + buf.len()] == *buf;
        if !buf.is_empty() && !at_pos {
            self.all_at_pos = false;
        }
        let (resp, k): (&str, usize) = if buf.is_empty() {
            ("accept", 0)
        } else {
            match self.mode.clone() {
                Mode::Chunk(k) => ("accept", k.min(buf.len())),
                Mode::Random(_) => ("accept", (1 + self.rng.below(17) as usize).min(buf.len())),
                Mode::FailAt(o) => if pos >= o { ("fail", 0) } else { ("accept", buf.len().min(o - pos)) },
                Mode::ZeroAt(o) => if pos >= o { ("zero", 0) } else { ("accept", buf.len().min(o - pos)) },
                Mode::Interrupts(k, n) => if self.calls % n == 0 { ("interrupted", 0) } else { ("accept", k.min(buf.len())) },
            }
        };
        if let Some(d) = &mut self.detail {
            d.push(json!({"event":"Write","len":buf.len(),"at_pos":at_pos,"resp":resp,"k":k}));
        }
        match resp {
            "accept" => { self.emitted.extend_from_slice(&buf[..k]); Ok(k) }
            "interrupted" => Err(io::Error::from(io::ErrorKind::Interrupted)),
            "zero" => {
                self.failed = true;
                self.zero_streak += 1;
                // a writer that keeps offering after Ok(0) never ends: stop it here (reported as a panic of the run)
                if self.zero_streak > 64 {
                    panic!("the writer keeps calling write() after the sink returned Ok(0) {} times", self.zero_streak);
                }
                Ok(0)
            }
            _ => { self.failed = true; Err(io::Error::new(io::ErrorKind::Other, "scripted failure")) }
        }
    }
    fn flush(&mut self) -> io::Result<()> {
        Ok(())
    }
}

fn mode_name(m: &Mode) -> String {
    match m {
        Mode::Chunk(k) => format!("chunk:{k}"),
        Mode::Random(s) => format!("random:{s}"),
        Mode::FailAt(o) => format!("fail_at:{o}"),
        Mode::ZeroAt(o) => format!("zero_at:{o}"),
        Mode::Interrupts(k, n) => format!("interrupts:{k}:{n}"),
    }
}

fn run_write(t: &mut Tracer, name: &str, what: &str, canonical: &[u8], mode: Mode, detail: bool, write: &dyn Fn(&mut Sink) -> Result<(), rpm::Error>) {
    let mut sink = Sink::new(canonical, mode.clone(), detail);
    let r = guarded(|| write(&mut sink));
    let result = match &r { Ok(Ok(())) => "ok", Ok(Err(_)) => "err", Err(_) => "panic" };
    if detail {
        t.emit(json!({"event":"Begin","ep_start":true,"pkg":name,"what":what,"mode":mode_name(&mode),"canonical_len":canonical.len()}));
        for mut e in sink.detail.take().unwrap() {
            e["pkg"] = json!(name);
            t.emit(e);
        }
        t.emit(json!({"event":"Return","pkg":name,"mode":mode_name(&mode),"result":result,"emitted_len":sink.emitted.len()}));
    } else {
        t.emit(json!({"event":"Run","pkg":name,"what":what,"mode":mode_name(&mode),"calls":sink.calls,"all_at_pos":sink.all_at_pos,
                      "result":result,"emitted_len":sink.emitted.len(),"canonical_len":canonical.len(),"sink_failed":sink.failed,
                      "emitted_is_prefix": canonical.len() >= sink.emitted.len() && canonical[..sink.emitted.len()] == sink.emitted[..]}));
    }
}

/// BufRead handing out at most `k` bytes per fill_buf
struct Drip<'a> {
    data: &'a [u8],
    pos: usize,
    k: usize,
    rng: Option<Rng>,
    cur: usize,
    /// every n-th call of fill_buf reports Interrupted first (0 = never)
    intr: usize,
    calls: usize,
}
impl Read for Drip<'_> {
    fn read(&mut self, buf: &mut [u8]) -> io::Result<usize> {
        let n = { let a = self.fill_buf()?; let n = a.len().min(buf.len()); buf[..n].copy_from_slice(&a[..n]); n };
        self.consume(n);
        Ok(n)
    }
}
impl BufRead for Drip<'_> {
    fn fill_buf(&mut self) -> io::Result<&[u8]> {
        self.calls += 1;
        if self.intr > 0 && self.calls % self.intr == 0 {
            return Err(io::Error::from(io::ErrorKind::Interrupted));
        }
        if self.cur == 0 {
            self.cur = match &mut self.rng { Some(r) => 1 + r.below(self.k as u64) as usize, None => self.k };
        }
        let end = (self.pos + self.cur).min(self.data.len());
        Ok(&self.data[self.pos..end])
    }
    fn consume(&mut self, amt: usize) {
        // like std's BufReader: no more than what the last fill_buf handed out can be consumed
        let amt = amt.min(self.cur).min(self.data.len() - self.pos);
        self.pos += amt;
        self.cur -= amt;
    }
}

pub fn run(args: &Args) {
    let mut t = Tracer::create(args.req("out"));
    let mut rng = Rng::new(args.seed());
    let thorough = args.thorough();
    let wd = gen_::Workdir::new("c14");
    let mut pkgs: Vec<(String, Package)> = vec![];
    for i in 0..(if thorough { 24 } else { 3 }) {
        let mut cfg = gen_::rand_cfg(&mut rng, 2, 120);
        if i == 1 { cfg.signer = Some("ed25519".into()); }
        if i == 2 { cfg.compression = Some(("none".into(), None)); }
        if let Ok(Ok(p)) = guarded(|| gen_::build(&cfg, &wd)) {
            pkgs.push((format!("built{i}"), p));
        }
    }
    for a in asset_paths() {
        let b = std::fs::read(&a).unwrap();
        if b.len() < 9000 || (thorough && b.len() < 300000) {
            pkgs.push((a.rsplit('/').next().unwrap().to_string(), Package::parse(&mut &b[..]).unwrap()));
        }
    }
    // hand-encoded packages whose main header store does not end with a region trailer: it ends with a string, with a
    // dribble string, or with bytes no entry refers to (a cut inside such a store removes nothing an entry needs)
    {
        use crate::rawhdr::*;
        let lead = lead_bytes("tail");
        let sig = encode_wellformed(62, &[]);
        let payload = b"070701 not really an archive".to_vec();
        let s_v = |x: &str| json!([x.as_bytes()]);
        let variants: Vec<(&str, Vec<u8>)> = vec![
            ("tail:string-last", { let store = b"name\0a-trailing-vendor-string\0"; encode_raw([0x8e, 0xad, 0xe8, 0x01], [0; 4], 2, store.len() as u32, &[[1000, 6, 0, 1], [1011, 6, 5, 1]], store) }),
            ("tail:slack", { let store = b"name\0\0\0\0\0\0\0\0\0slack!!"; encode_raw([0x8e, 0xad, 0xe8, 0x01], [0; 4], 1, store.len() as u32, &[[1000, 6, 0, 1]], store) }),
            ("tail:dribble-string", encode_dribble(63, &[(1000, T_STRING, s_v("name")), (1001, T_STRING, s_v("1"))], &[(1011, T_STRING, s_v("a dribble vendor string at the very end"))])),
            ("tail:strarr-last", { let store = b"name\0one\0two\0three\0"; encode_raw([0x8e, 0xad, 0xe8, 0x01], [0; 4], 2, store.len() as u32, &[[1000, 6, 0, 1], [1118, 8, 5, 3]], store) }),
        ];
        for (name, hdr) in variants {
            let bytes = assemble(&lead, &sig, &hdr, &payload, 0);
            if let Ok(Ok(p)) = guarded(|| Package::parse(&mut &bytes[..])) {
                pkgs.push((name.to_string(), p));
            }
        }
        // a payload of several I/O-buffer sizes (a writer that sends it in pieces has more than one piece to get right)
        let big: Vec<u8> = (0..150_001u32).map(|i| (i.wrapping_mul(2654435761) >> 13) as u8).collect();
        let hdr = encode_wellformed(63, &[(1000, T_STRING, s_v("bigpayload")), (1001, T_STRING, s_v("1"))]);
        let bytes = assemble(&lead_bytes("bigpayload"), &sig, &hdr, &big, 0);
        if let Ok(Ok(p)) = guarded(|| Package::parse(&mut &bytes[..])) {
            pkgs.push(("bigpayload".to_string(), p));
        }
    }
    if args.get("families") == Some("hash") {
        pkgs.clear();
    }
    // the canonical bytes of every package, written before any sink has failed (a writer that keeps state between
    // calls must not be able to spoil the reference)
    let canons: Vec<(Vec<u8>, Vec<u8>)> = pkgs.iter().map(|(_, pkg)| {
        let mut canon = vec![];
        pkg.write(&mut canon).unwrap();
        let mut canon_meta = vec![];
        pkg.metadata.write(&mut canon_meta).unwrap();
        (canon, canon_meta)
    }).collect();
    for (pi, (name, pkg)) in pkgs.iter().enumerate() {
        let (canon, canon_meta) = canons[pi].clone();
        let wp = |s: &mut Sink| pkg.write(s);
        let wm = |s: &mut Sink| pkg.metadata.write(s);
        // fault enumeration: every failure offset of the metadata, a stride through the payload
        let meta_len = canon_meta.len();
        let mut offs: Vec<usize> = (0..=meta_len).collect();
        let mut o = meta_len;
        while o < canon.len() { offs.push(o); o += 1 + (canon.len() - meta_len) / 50; }
        offs.push(canon.len());
        for &o in &offs {
            run_write(&mut t, name, "package", &canon, Mode::FailAt(o), false, &wp);
            if o % 7 == 0 {
                run_write(&mut t, name, "package", &canon, Mode::ZeroAt(o), false, &wp);
            }
        }
        for m in [Mode::Chunk(1), Mode::Chunk(2), Mode::Chunk(3), Mode::Chunk(5), Mode::Chunk(7), Mode::Chunk(16), Mode::Chunk(4096),
                  Mode::Random(args.seed() + pi as u64), Mode::Random(args.seed() + 100 + pi as u64), Mode::Interrupts(1, 2), Mode::Interrupts(3, 3), Mode::Interrupts(4096, 5)] {
            run_write(&mut t, name, "package", &canon, m.clone(), false, &wp);
            run_write(&mut t, name, "metadata", &canon_meta, m, false, &wm);
        }
        if thorough {
            for sd in 0..40u64 {
                run_write(&mut t, name, "package", &canon, Mode::Random(args.seed() * 1000 + sd + 1000 * pi as u64), false, &wp);
            }
            for k in [4usize, 6, 8, 9, 11, 13, 17, 31, 64, 127, 509, 1024] {
                run_write(&mut t, name, "package", &canon, Mode::Chunk(k), false, &wp);
                run_write(&mut t, name, "package", &canon, Mode::Interrupts(k, 2), false, &wp);
            }
        }
        // the path-based entry point into a device that is full: whatever buffering sits in between, nothing was written
        if std::path::Path::new("/dev/full").exists() {
            let r = guarded(|| pkg.write_file("/dev/full"));
            let result = match &r { Ok(Ok(())) => "ok", Ok(Err(_)) => "err", Err(_) => "panic" };
            t.emit(json!({"event":"Run","pkg":name,"what":"write_file","mode":"dev_full","calls":0,"all_at_pos":true,
                          "result":result,"emitted_len":0,"canonical_len":canon.len(),"sink_failed":true,"emitted_is_prefix":true}));
        }
        // detailed per-call episodes, validated step by step by the trace specification
        if pi < 2 || thorough {
            for m in [Mode::Chunk(1), Mode::Chunk(3), Mode::Random(args.seed() + 7), Mode::Interrupts(2, 2),
                      Mode::FailAt(meta_len / 2), Mode::FailAt(17), Mode::ZeroAt(meta_len - 3), Mode::FailAt(canon_meta.len())] {
                run_write(&mut t, name, "metadata", &canon_meta, m, true, &wm);
            }
        }
        // reader side: chunked sources
        let whole = match guarded(|| Package::parse(&mut &canon[..])) {
            Ok(Ok(p)) => p,
            _ => { t.emit(json!({"event":"CanonUnreadable","pkg":name})); continue; }
        };
        for (k, random) in [(1usize, false), (2, false), (3, false), (7, false), (16, false), (13, true), (5, true)] {
            let mut src = Drip { data: &canon, pos: 0, k, rng: if random { Some(Rng::new(args.seed() + k as u64)) } else { None }, cur: 0, intr: [0usize, 2, 0, 3, 5, 0, 2][k % 7], calls: 0 };
            let r = guarded(|| Package::parse(&mut src));
            let (res, same) = match r {
                Ok(Ok(p)) => ("ok", p.metadata == whole.metadata && p.content == whole.content),
                Ok(Err(_)) => ("err", false),
                Err(_) => ("panic", false),
            };
            t.emit(json!({"event":"ParseChunked","pkg":name,"chunk":k,"random":random,"result":res,"same_as_whole":same}));
            let mut src = Drip { data: &canon_meta, pos: 0, k, rng: None, cur: 0, intr: [0usize, 3, 0, 2][k % 4], calls: 0 };
            let r = guarded(|| PackageMetadata::parse(&mut src));
            let (res, same) = match r { Ok(Ok(m)) => ("ok", m == whole.metadata), Ok(Err(_)) => ("err", false), Err(_) => ("panic", false) };
            t.emit(json!({"event":"ParseChunked","pkg":name,"chunk":k,"what":"metadata","result":res,"same_as_whole":same}));
        }
        // truncation at every offset of the metadata (+ a few in the payload)
        let payload_at = rawhdr::layout(&canon).map(|l| l.payload_at).unwrap_or(meta_len);
        let mut cuts: Vec<usize> = (0..=payload_at).collect();
        cuts.extend([payload_at + 1, (payload_at + canon.len()) / 2, canon.len()].iter().filter(|&&c| c <= canon.len()));
        for at in cuts {
            let r = guarded(|| Package::parse(&mut &canon[..at]));
            let (res, cl) = match r { Ok(Ok(p)) => ("ok", p.content.len()), Ok(Err(_)) => ("err", 0), Err(_) => ("panic", 0) };
            t.emit(json!({"event":"ParseTruncated","pkg":name,"at":at,"payload_at":payload_at,"result":res,"content_len":cl}));
        }
    }
    // C08: the public hashing writer in front of short-accepting sinks
    let data: Vec<u8> = (0..64u8).collect();
    let mut modes = vec![];
    for k in 1..=8 { modes.push(Mode::Chunk(k)); }
    for s in 0..20 { modes.push(Mode::Random(args.seed() + s)); }
    for o in [0usize, 1, 5, 31, 32, 63, 64] { modes.push(Mode::FailAt(o)); modes.push(Mode::ZeroAt(o)); }
    modes.push(Mode::Interrupts(3, 2));
    for m in modes {
        for split in [1usize, 4, 7, 64] {
            let mut sink = Sink::new(&data, m.clone(), false);
            let (res, hashed) = {
                let mut hw = Sha256Writer::new(&mut sink);
                let r = guarded(|| -> io::Result<()> { for c in data.chunks(split) { hw.write_all(c)?; } Ok(()) });
                let res = match r { Ok(Ok(())) => "ok", Ok(Err(_)) => "err", Err(_) => "panic" };
                (res, hex(hw.into_digest().as_ref()))
            };
            t.emit(json!({"event":"HashRun","mode":mode_name(&m),"split":split,"result":res,"hashed":hashed,
                          "digest_of_emitted":hex(&Sha256::digest(&sink.emitted)),"emitted_len":sink.emitted.len()}));
        }
    }
    t.flush();
}
