//! Counting global allocator: current and peak live bytes, so that "allocates memory out of
//! proportion to the input" (C04) is an observation, not an inference.
use std::alloc::{GlobalAlloc, Layout, System};
use std::sync::atomic::{AtomicUsize, Ordering};

pub struct Counting;
static CUR: AtomicUsize = AtomicUsize::new(0);
static PEAK: AtomicUsize = AtomicUsize::new(0);

unsafe impl GlobalAlloc for Counting {
    unsafe fn alloc(&self, l: Layout) -> *mut u8 {
        let p = unsafe { System.alloc(l) };
        if !p.is_null() {
            let c = CUR.fetch_add(l.size(), Ordering::Relaxed) + l.size();
            PEAK.fetch_max(c, Ordering::Relaxed);
        }
        p
    }
    unsafe fn dealloc(&self, p: *mut u8, l: Layout) {
        unsafe { System.dealloc(p, l) };
        CUR.fetch_sub(l.size(), Ordering::Relaxed);
    }
    unsafe fn alloc_zeroed(&self, l: Layout) -> *mut u8 {
        let p = unsafe { System.alloc_zeroed(l) };
        if !p.is_null() {
            let c = CUR.fetch_add(l.size(), Ordering::Relaxed) + l.size();
            PEAK.fetch_max(c, Ordering::Relaxed);
        }
        p
    }
    unsafe fn realloc(&self, p: *mut u8, l: Layout, new: usize) -> *mut u8 {
        let q = unsafe { System.realloc(p, l, new) };
        if !q.is_null() {
            if new >= l.size() {
                let c = CUR.fetch_add(new - l.size(), Ordering::Relaxed) + (new - l.size());
                PEAK.fetch_max(c, Ordering::Relaxed);
            } else {
                CUR.fetch_sub(l.size() - new, Ordering::Relaxed);
            }
        }
        q
    }
}

/// start a measurement: peak := current
pub fn reset_peak() -> usize {
    let c = CUR.load(Ordering::Relaxed);
    PEAK.store(c, Ordering::Relaxed);
    c
}
/// bytes allocated above the level at reset_peak()
pub fn peak_above(base: usize) -> usize {
    PEAK.load(Ordering::Relaxed).saturating_sub(base)
}
