//! C20: timestamp conversion. Instants are constructed from exact (floor seconds, nanoseconds)
//! pairs chosen by the harness, so the expected value never depends on the library.
use crate::util::*;
use rpm::chrono::{DateTime, FixedOffset, Utc};
use rpm::{Timestamp, TimestampError};
use serde_json::{Value, json};
use std::time::{Duration, SystemTime, UNIX_EPOCH};

fn digits(secs: i128) -> (bool, Vec<u32>) {
    let neg = secs < 0;
    let mut m = secs.unsigned_abs();
    let mut d = vec![0u32; 5];
    for k in (0..5).rev() {
        d[k] = (m & 0xFFFF) as u32;
        m >>= 16;
    }
    (neg, d)
}

fn out_json(r: Result<Result<Timestamp, TimestampError>, String>) -> Value {
    match r {
        Ok(Ok(Timestamp(v))) => json!({"kind":"Ok","v":[v >> 16, v & 0xFFFF]}),
        Ok(Err(TimestampError::Underflow)) => json!({"kind":"Underflow"}),
        Ok(Err(TimestampError::Overflow)) => json!({"kind":"Overflow"}),
        Err(m) => json!({"kind":"Panic","msg":m}),
    }
}

fn system_time(secs: i128, nanos: u32) -> Option<SystemTime> {
    if secs >= 0 {
        let s: u64 = u64::try_from(secs).ok()?;
        UNIX_EPOCH.checked_add(Duration::new(s, nanos))
    } else {
        // t = secs + nanos/1e9 < 0  =>  |t| = (-secs - 1) + (1e9 - nanos)/1e9   (nanos > 0)
        let (s, n) = if nanos == 0 { ((-secs) as u128, 0u32) } else { ((-secs - 1) as u128, 1_000_000_000 - nanos) };
        let s: u64 = u64::try_from(s).ok()?;
        UNIX_EPOCH.checked_sub(Duration::new(s, n))
    }
}

fn convert(kind: &str, off: i32, secs: i128, nanos: u32) -> Option<Value> {
    match kind {
        "systemtime" => {
            let st = system_time(secs, nanos)?;
            Some(out_json(guarded(|| Timestamp::try_from(st))))
        }
        _ => {
            let s = i64::try_from(secs).ok()?;
            let dt = guarded(|| DateTime::<Utc>::from_timestamp(s, nanos)).ok()??;
            if off == 0 && kind == "utc" {
                Some(out_json(guarded(|| Timestamp::try_from(dt))))
            } else {
                let fo = FixedOffset::east_opt(off)?;
                // constructing the zoned value is chrono's business; only the conversion is under test
                let z = guarded(|| dt.with_timezone(&fo)).ok()?;
                Some(out_json(guarded(|| Timestamp::try_from(z))))
            }
        }
    }
}

pub fn run(args: &Args) {
    let mut t = Tracer::create(args.req("out"));
    let mut rng = Rng::new(args.seed());
    let win: i128 = if args.thorough() { 3000 } else { 300 };
    let nrand = args.num("random", if args.thorough() { 100_000 } else { 10_000 });
    let mut instants: Vec<(i128, u32)> = vec![];
    let sub = [0u32, 1, 500_000_000, 999_999_999];
    for c in [0i128, 1 << 31, 1 << 32] {
        for s in (c - win)..=(c + win) {
            for n in sub {
                instants.push((s, n));
            }
        }
    }
    // extremes of SystemTime and chrono
    for s in [i64::MAX as i128, i64::MIN as i128, (i64::MAX as i128) - 1, (i64::MIN as i128) + 1, 1i128 << 40, -(1i128 << 40),
              8_210_266_876_799, -8_334_601_228_800, 8_210_266_876_799 - 86400, -8_334_601_228_800 + 86400,
              (1i128 << 33), (1i128 << 32) + 86400 * 365, -1, -86400, 1 << 48] {
        for n in [0u32, 999_999_999] {
            instants.push((s, n));
        }
    }
    // instants at which a count of milli-, micro- or nanoseconds passes a multiple of 2^64 or 2^63 (where a conversion
    // through a narrower integer would wrap back into the valid range), and multiples of 2^61 and 2^62 seconds
    for unit in [1_000i128, 1_000_000, 1_000_000_000] {
        for m in 1..=4i128 {
            for base in [(m << 64) / unit, (m << 63) / unit, (m << 32) * 1000 / unit] {
                for d in [-1i128, 0, 1, 2, 7] {
                    instants.push((base + d, 0));
                    instants.push((base + d, 999_999_999));
                }
            }
        }
    }
    for k in 1..=3i128 {
        for base in [k << 61, k << 62, k << 33, k << 48] {
            for d in [0i128, 1, 5, (1 << 31), (1 << 32) - 1] {
                instants.push((base + d, 0));
            }
        }
    }
    for _ in 0..nrand {
        let s: i128 = match rng.below(6) {
            0 => rng.range(-100_000, 100_000) as i128,
            1 => (1i128 << 32) + rng.range(-100_000, 100_000) as i128,
            2 => (1i128 << 31) + rng.range(-100_000, 100_000) as i128,
            3 => rng.range(0, u32::MAX as i64) as i128,
            4 => rng.range(-(1i64 << 42), 1i64 << 42) as i128,
            _ => (rng.next() as i64 >> rng.below(30)) as i128,
        };
        let n = match rng.below(4) {
            0 => 0,
            1 => 999_999_999,
            _ => rng.below(1_000_000_000) as u32,
        };
        instants.push((s, n));
    }
    instants.sort();
    instants.dedup();
    let sources: Vec<(&str, i32)> = vec![
        ("systemtime", 0), ("utc", 0), ("fixed", -12 * 3600), ("fixed", -9 * 3600 - 1800), ("fixed", -5 * 3600),
        ("fixed", -3600), ("fixed", 0), ("fixed", 3600), ("fixed", 5 * 3600 + 1800), ("fixed", 5 * 3600 + 2700),
        ("fixed", 9 * 3600), ("fixed", 12 * 3600), ("fixed", 14 * 3600), ("fixed", 86399), ("fixed", -86399),
    ];
    let quick_sources = [0usize, 1, 2, 8, 12];
    for (si, (kind, off)) in sources.iter().enumerate() {
        if !args.thorough() && !quick_sources.contains(&si) {
            continue;
        }
        let mut prev: Option<Value> = None;
        for (idx, &(secs, nanos)) in instants.iter().enumerate() {
            // every source sees all boundary instants; random ones are spread across sources
            let boundary = (secs.abs() <= win) || ((secs - (1 << 31)).abs() <= win) || ((secs - (1 << 32)).abs() <= win);
            if !boundary && (idx % sources.len()) != si && *kind != "systemtime" {
                continue;
            }
            let Some(out) = convert(kind, *off, secs, nanos) else { continue };
            let (neg, d) = digits(secs);
            let inst = json!({"src":kind,"off":off,"neg":neg,"d":d,"nanos":nanos,"out":out});
            if out["kind"] == "Panic" {
                let mut e = inst.clone();
                e["event"] = json!("Panic");
                t.emit(e);
                prev = None;
                continue;
            }
            let mut e = inst.clone();
            e["event"] = json!("Ts");
            t.emit(e);
            if let Some(p) = prev.take() {
                t.emit(json!({"event":"TsPair","x":p,"y":inst.clone()}));
            }
            prev = Some(inst);
        }
    }
    t.flush();
}
