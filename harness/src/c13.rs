//! C13: version comparison.  Exhaustive rows over the canonical bounded domain plus seeded long
//! pairs / triples, EVR and NEVRA tuples, all through the public API (Evr / Nevra Ord, PartialEq,
//! rpm_evr_compare).
use crate::util::*;
use rpm::{Evr, Nevra, rpm_evr_compare};
use serde_json::json;

fn vercmp(a: &str, b: &str) -> Result<i32, String> {
    // epoch and release identical => Evr::cmp is exactly the string comparison of the versions
    guarded(|| ord_i(Evr::new("", a, "").cmp(&Evr::new("", b, ""))))
}

fn long_string(rng: &mut Rng, alpha: &[char], base: Option<&str>) -> String {
    let mut s = String::new();
    if let Some(b) = base {
        // shared prefix bias
        let cut = rng.below(b.chars().count() as u64 + 1) as usize;
        s.extend(b.chars().take(cut));
    }
    let n = rng.below(24) as usize;
    for _ in 0..n {
        match rng.below(10) {
            0 => s.push_str("000"),
            1 => s.push_str(".."),
            2 => s.push_str("-_"),
            3 => {
                let d = rng.below(100000);
                s.push_str(&d.to_string());
            }
            4 if rng.chance(1, 2) => {
                // a digit run around and beyond the width of every machine integer, with zero padding
                for _ in 0..rng.below(13) { s.push('0'); }
                let m = *rng.pick(&[1usize, 5, 9, 10, 18, 19, 20, 21, 22, 30, 39, 40, 45]);
                s.push((b'1' + rng.below(9) as u8) as char);
                for _ in 1..m { s.push((b'0' + rng.below(10) as u8) as char); }
            }
            _ => s.push(*rng.pick(alpha)),
        }
    }
    s
}

/// the same string with the zero padding in front of one of its digit runs changed
fn repad(rng: &mut Rng, a: &str) -> String {
    let cs: Vec<char> = a.chars().collect();
    let starts: Vec<usize> = (0..cs.len()).filter(|&i| cs[i].is_ascii_digit() && (i == 0 || !cs[i - 1].is_ascii_digit())).collect();
    if starts.is_empty() {
        return format!("{a}{}", "0".repeat(1 + rng.below(3) as usize));
    }
    let at = *rng.pick(&starts);
    let mut end = at;
    while end < cs.len() && cs[end] == '0' { end += 1; }
    let mut out: String = cs[..at].iter().collect();
    if end > at && rng.chance(1, 2) {
        // strip some or all of the existing zeros (keep one digit if the run is all zeros)
        let all_zero = end == cs.len() || !cs[end].is_ascii_digit();
        let keep = if all_zero { 1 } else { rng.below((end - at) as u64) as usize };
        out.extend(std::iter::repeat('0').take(keep));
    } else {
        out.extend(std::iter::repeat('0').take(end - at + 1 + rng.below(6) as usize));
    }
    out.extend(cs[end..].iter());
    out
}

pub fn run(args: &Args) {
    let mut t = Tracer::create(args.req("out"));
    let mut rng = Rng::new(args.seed());
    let alpha: Vec<u32> = args
        .get("alpha")
        .unwrap_or("48,49,57,97,98,90,46,45,95,126,94,233")
        .split(',')
        .map(|x| x.parse().unwrap())
        .collect();
    let maxlen = args.num("maxlen", 2) as usize;
    let n = dom_size(alpha.len(), maxlen);
    let dom: Vec<String> = (0..n).map(|i| from_codes(&nth_str(&alpha, i))).collect();
    // exhaustive rows
    for i in 0..n {
        let mut res = Vec::with_capacity(n);
        let mut panic = None;
        for j in 0..n {
            match vercmp(&dom[i], &dom[j]) {
                Ok(c) => res.push(c),
                Err(m) => {
                    panic = Some(m);
                    break;
                }
            }
        }
        if let Some(m) = panic {
            t.emit(json!({"event":"Panic","op":"cmp","a":codes(&dom[i]),"msg":m}));
        } else {
            t.emit(json!({"event":"CmpRow","alpha":alpha,"maxlen":maxlen,"i":i,"a":codes(&dom[i]),"res":res}));
        }
    }
    // seeded long pairs and triples
    let chars: Vec<char> = "0019abzAZ..--__~~^^+é日".chars().collect();
    let pairs = args.num("pairs", 2000);
    for pi in 0..pairs {
        // every eighth pair: the same frame around two digit runs near / beyond the width of machine integers that
        // are equal, differ in one digit or in length, under different zero padding
        let (a, b) = if pi % 8 == 0 {
            let m = *rng.pick(&[17usize, 18, 19, 20, 21, 22, 25, 38, 39, 40]);
            let mut d: Vec<u8> = (0..m).map(|i| if i == 0 { b'1' + rng.below(9) as u8 } else { b'0' + rng.below(10) as u8 }).collect();
            let da = String::from_utf8(d.clone()).unwrap();
            match rng.below(4) {
                0 => {}
                1 => { let k = rng.below(m as u64) as usize; d[k] = if d[k] == b'5' { b'6' } else { b'5' }; }
                2 => { d.push(b'0' + rng.below(10) as u8); }
                _ => { d.pop(); }
            }
            let db = String::from_utf8(d).unwrap();
            let pre = *rng.pick(&["", "1.", "a", "2.0~rc", "x-"]);
            let suf = *rng.pick(&["", ".1", "a", "^git", "~"]);
            (format!("{pre}{}{da}{suf}", "0".repeat(rng.below(12) as usize)), format!("{pre}{}{db}{suf}", "0".repeat(rng.below(12) as usize)))
        } else {
            let a = long_string(&mut rng, &chars, None);
            let b = match rng.below(8) {
                0 | 1 => repad(&mut rng, &a),
                2 => long_string(&mut rng, &chars, None),
                _ => long_string(&mut rng, &chars, Some(&a)),
            };
            (a, b)
        };
        let r = (|| -> Result<_, String> {
            Ok((vercmp(&a, &b)?, vercmp(&b, &a)?, vercmp(&a, &a)?, vercmp(&b, &b)?))
        })();
        match r {
            Ok((res, rev, ra, rb)) => {
                // the same comparison must be what Nevra uses for names and arches
                let via_name = guarded(|| ord_i(Nevra::new(a.as_str(), "", "", "", "").cmp(&Nevra::new(b.as_str(), "", "", "", ""))));
                let via_arch = guarded(|| ord_i(Nevra::new("", "", "", "", a.as_str()).cmp(&Nevra::new("", "", "", "", b.as_str()))));
                if via_name != Ok(res) || via_arch != Ok(res) {
                    t.emit(json!({"event":"Panic","op":"nevra-name/arch differs","a":codes(&a),"b":codes(&b),"msg":format!("{:?} {:?} {}", via_name, via_arch, res)}));
                }
                t.emit(json!({"event":"CmpPair","a":codes(&a),"b":codes(&b),"res":res,"rev":rev,"refl_a":ra,"refl_b":rb}));
            }
            Err(m) => {
                t.emit(json!({"event":"Panic","op":"cmp","a":codes(&a),"b":codes(&b),"msg":m}));
            }
        }
    }
    let triples = args.num("triples", 500);
    for _ in 0..triples {
        let a = long_string(&mut rng, &chars, None);
        let b = long_string(&mut rng, &chars, Some(&a));
        let c = long_string(&mut rng, &chars, Some(&b));
        match (vercmp(&a, &b), vercmp(&b, &c), vercmp(&a, &c)) {
            (Ok(ab), Ok(bc), Ok(ac)) => {
                t.emit(json!({"event":"Triple","a":codes(&a),"b":codes(&b),"c":codes(&c),"ab":ab,"bc":bc,"ac":ac}));
            }
            _ => {
                t.emit(json!({"event":"Panic","op":"cmp3","a":codes(&a)}));
            }
        }
    }
    // EVR tuples: exhaustive over a small component domain (incl. '-' and ':' inside fields, which
    // Evr::new accepts) through Ord, PartialEq and - where the text form is unambiguous - the string API
    // "a" / "0a": non-numeric epochs that differ by a leading zero only (unequal, and ordered by rpmvercmp)
    let epochs = ["", "0", "1", "01", "10", "a", "0a"];
    let versions = ["1", "1.0", "1.00", "1_0", "a", "1~", "1^", "1-1", "1.a", ""];
    let releases = ["", "1", "1.a", "1-1", "2"];
    let mut tuples = vec![];
    for e in epochs {
        for v in versions {
            for r in releases {
                tuples.push((e, v, r));
            }
        }
    }
    let textual = |x: &(&str, &str, &str)| -> bool {
        // Display text parses back to the same triple: epoch free of ':' and '-' ... the version must
        // not contain '-' or ':'; an empty epoch prints no colon, so nothing after may contain ':'
        !x.1.contains('-') && !x.1.contains(':') && !x.0.contains(':') && !x.0.contains('-')
            && !x.2.contains(':')
    };
    for x in &tuples {
        for y in &tuples {
            let ex = Evr::new(x.0, x.1, x.2);
            let ey = Evr::new(y.0, y.1, y.2);
            let ord = guarded(|| ord_i(ex.cmp(&ey)));
            let eq = guarded(|| ex == ey);
            // the same order through the other public doors: PartialOrd and the comparison operators (9 = incomparable)
            let pord = guarded(|| ex.partial_cmp(&ey).map(ord_i).unwrap_or(9)).unwrap_or(8);
            let (le, ge) = (guarded(|| ex <= ey).unwrap_or(false), guarded(|| ex >= ey).unwrap_or(false));
            let mut ev = json!({"event":"EvrRow","pord":pord,"le":le,"ge":ge,
                "x":{"e":codes(x.0),"v":codes(x.1),"r":codes(x.2)},
                "y":{"e":codes(y.0),"v":codes(y.1),"r":codes(y.2)}});
            match (ord, eq) {
                (Ok(o), Ok(q)) => {
                    ev["ord"] = json!(o);
                    ev["eq"] = json!(q);
                    if textual(x) && textual(y) {
                        let sx = ex.to_string();
                        let sy = ey.to_string();
                        match guarded(|| ord_i(rpm_evr_compare(&sx, &sy))) {
                            Ok(c) => ev["via_str"] = json!(c),
                            Err(_) => ev["event"] = json!("Panic"),
                        }
                    }
                }
                _ => ev["event"] = json!("Panic"),
            }
            t.emit(ev);
        }
    }
    // NEVRA tuples
    let names = ["a", "a-b", "b", "a.b"];
    let arches = ["x", "noarch", ""];
    let small: Vec<(&str, &str, &str)> = vec![("", "1", "1"), ("0", "1", "1"), ("1", "1", "1"), ("", "1-1", "1"), ("", "1", "1-1"), ("", "2", ""), ("a", "1", "1"), ("0a", "1", "1")];
    let mut ntuples = vec![];
    for n in names {
        for s in &small {
            for a in arches {
                ntuples.push((n, s.0, s.1, s.2, a));
            }
        }
    }
    for x in &ntuples {
        for y in &ntuples {
            let nx = Nevra::new(x.0, x.1, x.2, x.3, x.4);
            let ny = Nevra::new(y.0, y.1, y.2, y.3, y.4);
            let ord = guarded(|| ord_i(nx.cmp(&ny)));
            let eq = guarded(|| nx == ny);
            let pord = guarded(|| nx.partial_cmp(&ny).map(ord_i).unwrap_or(9)).unwrap_or(8);
            let (le, ge) = (guarded(|| nx <= ny).unwrap_or(false), guarded(|| nx >= ny).unwrap_or(false));
            let mut ev = json!({"event":"NevraRow","pord":pord,"le":le,"ge":ge,
                "x":{"n":codes(x.0),"e":codes(x.1),"v":codes(x.2),"r":codes(x.3),"a":codes(x.4)},
                "y":{"n":codes(y.0),"e":codes(y.1),"v":codes(y.2),"r":codes(y.3),"a":codes(y.4)}});
            match (ord, eq) {
                (Ok(o), Ok(q)) => {
                    ev["ord"] = json!(o);
                    ev["eq"] = json!(q);
                }
                _ => ev["event"] = json!("Panic"),
            }
            t.emit(ev);
        }
    }
    t.flush();
}
