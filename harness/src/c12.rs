//! C12: extraction. Hostile and benign packages enumerated by the specification (Gen_Extract) are
//! hand-encoded and extracted into a scratch jail; the whole jail is snapshotted before and after.
//! Packages built by the library are extracted and compared with their configuration.
use crate::c07::newc_entry;
use crate::cfggen as gen_;
use crate::rawhdr::{self, *};
use crate::util::*;
use rpm::Package;
use serde_json::{Value, json};
use sha2::{Digest, Sha256};
use std::collections::BTreeMap;
use std::os::unix::fs::PermissionsExt;
use std::path::{Path, PathBuf};

#[derive(Clone, PartialEq, Debug)]
struct Node {
    kind: &'static str,
    data: Vec<u8>,
    perm: u32,
    target: String,
}

fn snapshot(top: &Path) -> BTreeMap<String, Node> {
    let mut out = BTreeMap::new();
    fn walk(top: &Path, dir: &Path, out: &mut BTreeMap<String, Node>) {
        let Ok(rd) = std::fs::read_dir(dir) else { return };
        for e in rd.flatten() {
            let p = e.path();
            let rel = p.strip_prefix(top).unwrap().to_string_lossy().to_string();
            let Ok(md) = std::fs::symlink_metadata(&p) else { continue };
            let ft = md.file_type();
            let perm = md.permissions().mode() & 0o7777;
            if ft.is_symlink() {
                out.insert(rel, Node { kind: "link", data: vec![], perm, target: std::fs::read_link(&p).map(|t| t.to_string_lossy().to_string()).unwrap_or_default() });
            } else if ft.is_dir() {
                out.insert(rel, Node { kind: "dir", data: vec![], perm, target: String::new() });
                walk(top, &p, out);
            } else {
                out.insert(rel, Node { kind: if ft.is_file() { "file" } else { "other" }, data: std::fs::read(&p).unwrap_or_default(), perm, target: String::new() });
            }
        }
    }
    walk(top, top, &mut out);
    out
}

struct Jail {
    top: PathBuf,  // scratch root; the model's jail root is top/j1/j2/jail
    jail: PathBuf,
}
impl Jail {
    fn new(tag: &str) -> Jail {
        let top = std::env::temp_dir().join(format!("rpm_verif_c12_{}_{}", std::process::id(), tag));
        let _ = std::fs::remove_dir_all(&top);
        let jail = top.join("j1/j2/jail");
        std::fs::create_dir_all(jail.join("out/sub")).unwrap();
        std::fs::write(jail.join("out/victim"), b"precious").unwrap();
        Jail { top, jail }
    }
}
impl Drop for Jail {
    fn drop(&mut self) {
        // restore permissions so that removal works
        fn fix(p: &Path) {
            if let Ok(md) = std::fs::symlink_metadata(p) {
                if md.is_dir() {
                    let _ = std::fs::set_permissions(p, std::fs::Permissions::from_mode(0o755));
                    if let Ok(rd) = std::fs::read_dir(p) { for e in rd.flatten() { fix(&e.path()); } }
                }
            }
        }
        fix(&self.top);
        let _ = std::fs::remove_dir_all(&self.top);
    }
}

fn encode_pkg(entries: &[Value], enc: &str, jail: &Path, lie: Option<u64>) -> Vec<u8> {
    let flat = enc != "plain";
    let n = entries.len();
    let mut dirnames: Vec<Vec<u8>> = vec![];
    let mut dirindex = vec![];
    let mut basenames: Vec<Vec<u8>> = vec![];
    let mut modes = vec![];
    let mut sizes = vec![];
    let mut links: Vec<Vec<u8>> = vec![];
    let mut digests: Vec<Vec<u8>> = vec![];
    let mut archive = vec![];
    for (i, e) in entries.iter().enumerate() {
        let comps: Vec<String> = e["comps"].as_array().unwrap().iter().map(|c| c.as_str().unwrap().to_string()).collect();
        let full_dir = format!("/{}", comps[..comps.len() - 1].iter().map(|c| format!("{c}/")).collect::<String>());
        // flat: "/" is the only directory name and the base name holds the rest of the path
        // abs: an absolute base name that names <jail>/<path>
        let (dir, base) = if enc == "abs" { ("/".to_string(), format!("{}/{}", jail.display(), comps.join("/"))) }
                          else if flat { ("/".to_string(), comps.join("/")) } else { (full_dir.clone(), comps[comps.len() - 1].clone()) };
        let arch_name = if enc == "abs" { format!("./{base}") } else { format!(".{}{}", full_dir, comps[comps.len() - 1]) };
        let di = match dirnames.iter().position(|d| d == dir.as_bytes()) { Some(k) => k, None => { dirnames.push(dir.clone().into_bytes()); dirnames.len() - 1 } };
        dirindex.push(di as u32);
        basenames.push(base.into_bytes());
        let kind = e["kind"].as_str().unwrap();
        let data = e["data"].as_str().unwrap().as_bytes().to_vec();
        let target = if e["target"]["abs"].as_bool().unwrap() {
            format!("{}/{}", jail.display(), e["target"]["comps"].as_array().unwrap().iter().map(|c| c.as_str().unwrap()).collect::<Vec<_>>().join("/"))
        } else {
            e["target"]["comps"].as_array().unwrap().iter().map(|c| c.as_str().unwrap()).collect::<Vec<_>>().join("/")
        };
        // permission bits unlike anything the jail starts with, so that a chmod that lands outside the target shows
        let mode: u32 = match kind { "file" => 0o100640, "dir" => 0o040711, "link" => 0o120777, _ => 0o010644 };
        modes.push(mode);
        let content: Vec<u8> = if kind == "file" { data } else { vec![] };
        sizes.push(content.len() as u32);
        links.push(if kind == "link" { target.into_bytes() } else { vec![] });
        digests.push(if kind == "file" { hex(&Sha256::digest(&content)).into_bytes() } else { vec![] });
        archive.extend_from_slice(&newc_entry(&arch_name, mode, &content, i as u32 + 1));
    }
    archive.extend_from_slice(&newc_entry("TRAILER!!!", 0, &[], 0));
    let bv = |xs: &Vec<Vec<u8>>| Value::Array(xs.iter().map(|x| json!(x)).collect());
    let mut h: Vec<(u32, u32, Value)> = vec![
        (1000, T_STRING, json!(["hostile".as_bytes()])), (1001, T_STRING, json!(["1".as_bytes()])), (1002, T_STRING, json!(["1".as_bytes()])),
        (1004, T_I18N, json!(["s".as_bytes()])), (1022, T_STRING, json!(["noarch".as_bytes()])),
        (1117, T_STRARR, bv(&basenames)), (1118, T_STRARR, bv(&dirnames)), (1116, T_INT32, json!(dirindex)),
        (1030, T_INT16, json!(modes)), (1028, T_INT32, json!(sizes)),
        (1039, T_STRARR, json!(vec!["root".as_bytes(); n])), (1040, T_STRARR, json!(vec!["root".as_bytes(); n])),
        (1035, T_STRARR, bv(&digests)), (1034, T_INT32, json!(vec![1_600_000_000u32; n])), (1037, T_INT32, json!(vec![0u32; n])),
        (1036, T_STRARR, bv(&links)), (5011, T_INT32, json!([8])),
    ];
    if let Some(v) = lie {
        // a header that claims (64-bit) file sizes the archive does not have
        h.retain(|e| e.0 != 1028);
        h.push((5008, T_INT64, json!(vec![v; n])));
    }
    rawhdr::assemble(&lead_bytes("hostile"), &encode_wellformed(62, &[]), &encode_wellformed(63, &h), &archive, 0)
}

fn target_json(t: &str, jail: &Path) -> Value {
    let js = jail.to_string_lossy().to_string();
    if let Some(rest) = t.strip_prefix(&js) {
        json!({"abs": true, "comps": rest.split('/').filter(|c| !c.is_empty()).collect::<Vec<_>>()})
    } else {
        json!({"abs": t.starts_with('/'), "comps": t.split('/').filter(|c| !c.is_empty()).collect::<Vec<_>>()})
    }
}

fn run_extract(j: &Jail, bytes: &[u8]) -> (String, Vec<Value>, Vec<Value>) {
    run_extract_spelled(j, bytes, 0)
}

/// `spell`: how the caller writes the target directory <jail>/t (0: plainly; 1: through "out/.."; 2: with a "."
/// component; 3: with a trailing slash)
fn run_extract_spelled(j: &Jail, bytes: &[u8], spell: usize) -> (String, Vec<Value>, Vec<Value>) {
    let dest = j.jail.join("t");
    let spelled = PathBuf::from(match spell % 4 {
        1 => format!("{}/out/../t", j.jail.display()),
        2 => format!("{}/./t", j.jail.display()),
        3 => format!("{}/t/", j.jail.display()),
        _ => format!("{}/t", j.jail.display()),
    });
    let before = snapshot(&j.top);
    let outcome = match guarded(|| -> Result<(), rpm::Error> { Package::parse(&mut &bytes[..])?.extract(&spelled) }) {
        Ok(Ok(())) => "ok".to_string(),
        Ok(Err(_)) => "err".to_string(),
        Err(m) => format!("panic: {m}"),
    };
    let after = snapshot(&j.top);
    let tprefix = dest.strip_prefix(&j.top).unwrap().to_string_lossy().to_string();
    let jprefix = j.jail.strip_prefix(&j.top).unwrap().to_string_lossy().to_string();
    let mut outside = vec![];
    let keys: std::collections::BTreeSet<&String> = before.keys().chain(after.keys()).collect();
    for k in keys {
        if k == &tprefix || k.starts_with(&format!("{tprefix}/")) { continue; }
        if before.get(k) != after.get(k) {
            outside.push(json!({"path": k, "before": before.get(k).map(|n| n.kind).unwrap_or("none"), "after": after.get(k).map(|n| n.kind).unwrap_or("none")}));
        }
    }
    let mut inside = vec![];
    for (k, n) in &after {
        if let Some(rel) = k.strip_prefix(&format!("{jprefix}/")) {
            if rel == "t" || rel.starts_with("t/") {
                inside.push(json!({"path": rel.split('/').collect::<Vec<_>>(), "kind": n.kind, "data": String::from_utf8_lossy(&n.data),
                                   "sha": hex(&Sha256::digest(&n.data)), "perm": n.perm, "target": target_json(&n.target, &j.jail), "target_str": n.target}));
            }
        }
    }
    (outcome, outside, inside)
}

pub fn run(args: &Args) {
    let mut t = Tracer::create(args.req("out"));
    let mut rng = Rng::new(args.seed());
    if let Some(cases) = args.get("cases") {
        for (i, line) in std::fs::read_to_string(cases).unwrap().lines().enumerate() {
            if line.trim().is_empty() { continue; }
            let c: Value = serde_json::from_str(line).unwrap();
            let j = Jail::new(&format!("g{i}"));
            let flat = c["flat"].as_bool().unwrap_or(false);
            let bytes = encode_pkg(c["entries"].as_array().unwrap(), c["mode"].as_str().unwrap_or("plain"), &j.jail, None);
            let (outcome, outside, inside) = run_extract(&j, &bytes);
            let ev = if outcome.starts_with("panic") { "Panic" } else { "Extract" };
            t.emit(json!({"event":ev,"case":i,"entries":c["entries"],"flat":flat,"mode":c["mode"],"naive_escapes":c["naive_escapes"],"model_benign":c["benign"],
                          "outcome":outcome,"outside_diff":outside,"inside":inside,"lying":false}));
            if i % 4 == 0 && !c["entries"].as_array().unwrap().is_empty() {
                // the same package under a header whose size fields lie (hostile in another way: contained, and no panic)
                let v = [u64::MAX, 1u64 << 63, u64::MAX - 2, (1u64 << 63) + 4096][(i / 4) % 4];
                let j = Jail::new(&format!("l{i}"));
                let bytes = encode_pkg(c["entries"].as_array().unwrap(), c["mode"].as_str().unwrap_or("plain"), &j.jail, Some(v));
                let (outcome, outside, inside) = run_extract(&j, &bytes);
                let ev = if outcome.starts_with("panic") { "Panic" } else { "Extract" };
                t.emit(json!({"event":ev,"case":i,"entries":c["entries"],"flat":flat,"mode":c["mode"],"naive_escapes":c["naive_escapes"],"model_benign":c["benign"],
                              "outcome":outcome,"outside_diff":outside,"inside":inside,"lying":true,"claimed_size":v.to_string()}));
            }
        }
    }
    // benign: packages built by the library
    let wd = gen_::Workdir::new("c12");
    for i in 0..args.num("n", 30) {
        let mut cfg = gen_::rand_cfg(&mut rng, 6, 3000);
        if i % 3 == 0 {
            // a directory with unusual permission bits that holds a file (and a nested one)
            let perm = [0o700u16, 0o2770, 0o1777, 0o750][(i as usize / 3) % 4];
            let mut used = vec![];
            let mut d = gen_::rand_file(&mut rng, &mut used, 10);
            d.dest = format!("/srv/box{i}"); d.mode = Some(0o040000 | perm); d.len = 0; d.link = None;
            let mut f = gen_::rand_file(&mut rng, &mut used, 50);
            f.dest = format!("/srv/box{i}/inner/data.bin"); f.mode = Some(0o100640); f.link = None;
            let mut d2 = gen_::rand_file(&mut rng, &mut used, 10);
            d2.dest = format!("/srv/box{i}/inner"); d2.mode = Some(0o040000 | 0o2775); d2.len = 0; d2.link = None;
            cfg.files.extend([d, f, d2]);
        }
        // every fifth package is laid out in the large-file (stripped) archive format, reached through the hook
        #[cfg(rpm_verif)]
        if i % 5 == 4 { rpm::verif::set_large_file_threshold([1u64, 50, 0][(i as usize / 5) % 3]); }
        let built = guarded(|| gen_::build(&cfg, &wd));
        #[cfg(rpm_verif)]
        rpm::verif::set_large_file_threshold(u32::MAX as u64);
        let Ok(Ok(p)) = built else { continue };
        let mut bytes = vec![];
        p.write(&mut Plain(&mut bytes)).unwrap();
        let j = Jail::new(&format!("b{i}"));
        let (outcome, outside, inside) = run_extract_spelled(&j, &bytes, i as usize);
        let want: Vec<Value> = cfg.files.iter().map(|f| {
            let path: Vec<String> = std::iter::once("t".to_string()).chain(gen_::installed_path(&f.dest).split('/').filter(|c| !c.is_empty()).map(|c| c.to_string())).collect();
            let mode = gen_::expected_mode(f) as u16;
            let kind = match mode & 0o170000 { 0o040000 => "dir", 0o120000 => "link", _ => "file" };
            json!({"path": path, "kind": kind, "sha": hex(&Sha256::digest(gen_::content(f.len, f.compressible, f.seed))),
                   "perm": (mode & 0o7777) as u32, "target": target_json(f.link.as_deref().unwrap_or(""), &j.jail)})
        }).collect();
        let ev = if outcome.starts_with("panic") { "Panic" } else { "ExtractBuilt" };
        t.emit(json!({"event":ev,"i":i,"outcome":outcome,"outside_diff":outside,"inside":inside,"want":want}));
    }
    t.flush();
}
