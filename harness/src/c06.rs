//! C06: everything given to the builder is read back. Seeded random configurations over the
//! quantifier's domain are built, written, re-parsed and read through every accessor; the trace
//! specification (Trace_C06 / Builder) compares field by field.
use crate::cfggen as gen_;
use crate::pkgobs::{self, b, err_name, u32d};
use crate::util::*;
use rpm::Package;
use serde_json::{Value, json};
use sha2::{Digest, Sha256};

pub fn files_json(c: &gen_::Cfg) -> Value {
    let ob = |s: &Option<String>| match s { Some(x) => json!({"some": x.as_bytes()}), None => json!({"none": true}) };
    Value::Array(c.files.iter().map(|f| json!({
        "dest": f.dest.as_bytes(),
        "mode": match (f.mode, f.mode_wide) { (Some(m), _) => json!({"some": m}), (None, Some(w)) => json!({"some": (w as u32) & 0xFFFF}), (None, None) => json!({"none": true}) },
        "src_exec": f.src_exec, "src_mode": 0o100000 | gen_::src_perm(f), "user": ob(&f.user), "group": ob(&f.group), "flags": f.flags,
        "caps": ob(&f.caps), "link": ob(&f.link), "mtime": [f.mtime >> 16, f.mtime & 0xFFFF],
        "len": f.len, "sha256": hex(&Sha256::digest(gen_::content(f.len, f.compressible, f.seed))),
    })).collect())
}

pub fn entries_json(p: &Package) -> Value {
    match guarded(|| p.metadata.get_file_entries()) {
        Ok(Ok(v)) => json!({"ok": v.iter().map(|e| json!({
            "path": b(&e.path.to_string_lossy()), "mode": e.mode.raw_mode(), "user": b(&e.ownership.user), "group": b(&e.ownership.group),
            "flags": u32d(e.flags.bits()),
            "caps": match &e.caps { Some(c) => json!({"some": c.as_bytes()}), None => json!({"none": true}) },
            "linkto": b(&e.linkto), "size": e.size,
            "digest": match &e.digest { Some(d) => json!({"some": d.as_hex()}), None => json!({"none": true}) },
            "mtime": u32d(e.modified_at.0),
        })).collect::<Vec<_>>()}),
        Ok(Err(e)) => json!({"err": err_name(&e)}),
        Err(m) => json!({"panic": m}),
    }
}

/// raw observations of what the builder added by itself, decoded with the harness's own header reader
pub fn derived_json(bytes: &[u8]) -> Option<Value> {
    let lay = crate::rawhdr::layout(bytes)?;
    let h = &lay.hdr;
    let opt_s = |t: u32| match h.strings(bytes, t) { Some(v) if v.len() == 1 => json!({"some": v[0]}), _ => json!({"none": true}) };
    let strs: Vec<Value> = [1044u32, 1021, 5062, 1124, 1064, 1125, 1126, 1016, 1005].iter().map(|t| json!({"t": t, "v": opt_s(*t)})).collect();
    let zip = |n: u32, f: u32, v: u32| -> Value {
        let (ns, fs, vs) = (h.strings(bytes, n).unwrap_or_default(), h.u32s(bytes, f).unwrap_or_default(), h.strings(bytes, v).unwrap_or_default());
        Value::Array((0..ns.len().min(fs.len()).min(vs.len())).map(|i| json!({"a": ns[i], "b": u32d(fs[i]), "c": vs[i]})).collect())
    };
    let name_end = bytes[10..76].iter().position(|&c| c == 0).unwrap_or(66);
    Some(json!({
        "tags": h.entries.iter().map(|e| e.tag).filter(|t| *t != 63).collect::<Vec<_>>(),
        "sig_tags": lay.sig.entries.iter().map(|e| e.tag).filter(|t| *t != 62).collect::<Vec<_>>(),
        "strs": strs,
        "i18ntable": h.strings(bytes, 100).unwrap_or_default(),
        "size": match h.u32s(bytes, 1009) { Some(v) if v.len() == 1 => json!({"some": u32d(v[0])}), _ => json!({"none": true}) },
        "provides": zip(1047, 1112, 1113), "requires": zip(1049, 1048, 1050), "recommends": zip(5046, 5048, 5047),
        "inodes": h.u32s(bytes, 1096).unwrap_or_default(), "devices": h.u32s(bytes, 1095).unwrap_or_default(),
        "rdevs": h.u16s(bytes, 1033).unwrap_or_default(), "langs": h.strings(bytes, 1097).unwrap_or_default(),
        "digestalgo": h.u32s(bytes, 5011).unwrap_or_default(), "dirnames": h.strings(bytes, 1118).unwrap_or_default(),
        "lead": {"magic": &bytes[0..4], "major": bytes[4], "minor": bytes[5], "type": u16::from_be_bytes([bytes[6], bytes[7]]),
                 "arch": u16::from_be_bytes([bytes[8], bytes[9]]), "name": &bytes[10..10 + name_end],
                 "os": u16::from_be_bytes([bytes[76], bytes[77]]), "sigtype": u16::from_be_bytes([bytes[78], bytes[79]])},
    }))
}

pub fn build_event(cfg: &gen_::Cfg, wd: &gen_::Workdir, i: u64) -> (Value, Option<Vec<u8>>) {
    let built = guarded(|| gen_::build(cfg, wd));
    let p = match built {
        Ok(Ok(p)) => p,
        Ok(Err(e)) => return (json!({"event":"BuildErr","i":i,"err":err_name(&e),"cfg":gen_::cfg_json(cfg),"files":files_json(cfg)}), None),
        Err(m) => return (json!({"event":"Panic","op":"build","i":i,"msg":m,"cfg":gen_::cfg_json(cfg)}), None),
    };
    let mut bytes = vec![];
    if let Err(e) = p.write(&mut Plain(&mut bytes)) {
        return (json!({"event":"BuildErr","i":i,"err":err_name(&e),"cfg":gen_::cfg_json(cfg)}), None);
    }
    let q = match guarded(|| Package::parse(&mut &bytes[..])) {
        Ok(Ok(q)) => q,
        _ => return (json!({"event":"Panic","op":"reparse of built package","i":i,"cfg":gen_::cfg_json(cfg)}), Some(bytes)),
    };
    let mut gets = pkgobs::all_gets(&q.metadata);
    gets.push(json!({"acc":"get_verify_script","res": match guarded(|| q.metadata.get_verify_script()) {
        Ok(Ok(s)) => json!({"ok": {"script": b(&s.script),
            "flags": match s.flags { Some(f) => json!({"some": u32d(f.bits())}), None => json!({"none": true}) },
            "prog": match s.program { Some(pp) => json!({"some": pp.iter().map(|x| b(x)).collect::<Vec<_>>()}), None => json!({"none": true}) }}}),
        Ok(Err(e)) => json!({"err": err_name(&e)}),
        Err(m) => json!({"panic": m}),
    }}));
    let mut ev = json!({"event":"Build","i":i,"cfg":gen_::cfg_json(cfg),"files":files_json(cfg),"gets":gets,"entries":entries_json(&q)});
    if let Some(d) = derived_json(&bytes) {
        ev["derived"] = d;
    }
    (ev, Some(bytes))
}

pub fn run(args: &Args) {
    let mut t = Tracer::create(args.req("out"));
    let mut rng = Rng::new(args.seed());
    // the dependency constructors: name decoration and sense bits (spec/Builder.tla DepSense)
    {
        use rpm::Dependency as D;
        let ctors: Vec<(&str, D)> = vec![
            ("any", D::any("n")), ("eq", D::eq("n", "1")), ("less", D::less("n", "1")), ("less_eq", D::less_eq("n", "1")),
            ("greater", D::greater("n", "1")), ("greater_eq", D::greater_eq("n", "1")), ("rpmlib", D::rpmlib("n", "1")),
            ("config", D::config("n", "1")), ("user", D::user("n")), ("group", D::group("n")),
            ("script_pre", D::script_pre("n")), ("script_post", D::script_post("n")), ("script_preun", D::script_preun("n")),
            ("script_postun", D::script_postun("n")),
        ];
        for (c, d) in ctors {
            t.emit(json!({"event":"DepCtor","ctor":c,"name":d.name.as_bytes(),"flags":u32d(d.flags.bits()),"version":d.version.as_bytes()}));
        }
    }
    let n = args.num("n", 200);
    let wd = gen_::Workdir::new("c06");
    for i in 0..n {
        let mut cfg = gen_::rand_cfg(&mut rng, 6, 3000);
        if i % 10 == 3 {
            cfg.signer = Some(gen_::KEYS[(i as usize / 10) % 4].to_string());
        }
        if i % 7 == 0 {
            // files directly under the root directory, both destination styles
            let mut used: Vec<String> = cfg.files.iter().map(|f| gen_::installed_path(&f.dest)).collect();
            let mut f = gen_::rand_file(&mut rng, &mut used, 100);
            f.dest = format!("{}/rootfile{}", if i % 14 == 0 { "." } else { "" }, i);
            cfg.files.push(f);
        }
        let (ev, _) = build_event(&cfg, &wd, i);
        t.emit(ev);
    }
    t.flush();
}
