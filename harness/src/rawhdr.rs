//! The harness's own, deliberately dumb header encoder / decoder (independent of the library):
//! used to build hand-encoded packages from TLC-generated cases and to locate byte ranges and
//! recorded values when recomputing digests.  The *specification* re-derives every layout fact it
//! judges from the raw bytes; nothing here is trusted by it.
use serde_json::Value;

pub const T_CHAR: u32 = 1;
pub const T_INT8: u32 = 2;
pub const T_INT16: u32 = 3;
pub const T_INT32: u32 = 4;
pub const T_INT64: u32 = 5;
pub const T_STRING: u32 = 6;
pub const T_BIN: u32 = 7;
pub const T_STRARR: u32 = 8;
pub const T_I18N: u32 = 9;

#[derive(Clone, Debug)]
pub struct RawEntry {
    pub tag: u32,
    pub typ: u32,
    pub offset: i32,
    pub count: u32,
}

#[derive(Clone, Debug)]
pub struct RawHeader {
    pub at: usize,
    pub entries: Vec<RawEntry>,
    pub store_at: usize,
    pub dsize: usize,
}

fn be32(b: &[u8], at: usize) -> Option<u32> {
    b.get(at..at + 4).map(|x| u32::from_be_bytes([x[0], x[1], x[2], x[3]]))
}

impl RawHeader {
    pub fn parse(b: &[u8], at: usize) -> Option<RawHeader> {
        let n = be32(b, at + 8)? as usize;
        let d = be32(b, at + 12)? as usize;
        if n > 1 << 20 || d > 1 << 28 || at + 16 + 16 * n + d > b.len() {
            return None;
        }
        let mut entries = Vec::with_capacity(n);
        for k in 0..n {
            let p = at + 16 + 16 * k;
            entries.push(RawEntry { tag: be32(b, p)?, typ: be32(b, p + 4)?, offset: be32(b, p + 8)? as i32, count: be32(b, p + 12)? });
        }
        Some(RawHeader { at, entries, store_at: at + 16 + 16 * n, dsize: d })
    }
    pub fn len(&self) -> usize {
        16 + 16 * self.entries.len() + self.dsize
    }
    pub fn find(&self, tag: u32) -> Option<&RawEntry> {
        self.entries.iter().find(|e| e.tag == tag)
    }
    fn data<'a>(&self, b: &'a [u8], e: &RawEntry) -> Option<&'a [u8]> {
        if e.offset < 0 || e.offset as usize > self.dsize {
            return None;
        }
        b.get(self.store_at + e.offset as usize..self.store_at + self.dsize)
    }
    pub fn strings(&self, b: &[u8], tag: u32) -> Option<Vec<Vec<u8>>> {
        let e = self.find(tag)?;
        if ![T_STRING, T_STRARR, T_I18N].contains(&e.typ) {
            return None;
        }
        let mut d = self.data(b, e)?;
        let mut out = vec![];
        for _ in 0..e.count {
            let z = d.iter().position(|&c| c == 0)?;
            out.push(d[..z].to_vec());
            d = &d[z + 1..];
        }
        Some(out)
    }
    pub fn string(&self, b: &[u8], tag: u32) -> Option<String> {
        self.strings(b, tag)?.first().map(|s| String::from_utf8_lossy(s).to_string())
    }
    pub fn u32s(&self, b: &[u8], tag: u32) -> Option<Vec<u32>> {
        let e = self.find(tag)?;
        if e.typ != T_INT32 {
            return None;
        }
        let d = self.data(b, e)?;
        (0..e.count as usize).map(|i| be32(d, 4 * i)).collect()
    }
    pub fn u16s(&self, b: &[u8], tag: u32) -> Option<Vec<u16>> {
        let e = self.find(tag)?;
        if e.typ != T_INT16 {
            return None;
        }
        let d = self.data(b, e)?;
        (0..e.count as usize).map(|i| d.get(2 * i..2 * i + 2).map(|x| u16::from_be_bytes([x[0], x[1]]))).collect()
    }
    pub fn u64s(&self, b: &[u8], tag: u32) -> Option<Vec<u64>> {
        let e = self.find(tag)?;
        if e.typ != T_INT64 {
            return None;
        }
        let d = self.data(b, e)?;
        (0..e.count as usize)
            .map(|i| d.get(8 * i..8 * i + 8).map(|x| u64::from_be_bytes(x.try_into().unwrap())))
            .collect()
    }
    pub fn bin(&self, b: &[u8], tag: u32) -> Option<Vec<u8>> {
        let e = self.find(tag)?;
        if e.typ != T_BIN {
            return None;
        }
        self.data(b, e)?.get(..e.count as usize).map(|x| x.to_vec())
    }
}

/// Layout of a package file as the harness sees it (None where the bytes do not allow it).
pub struct Layout {
    pub sig: RawHeader,
    pub hdr: RawHeader,
    pub hdr_at: usize,
    pub payload_at: usize,
}

pub fn layout(b: &[u8]) -> Option<Layout> {
    if b.len() < 96 + 16 {
        return None;
    }
    let sig = RawHeader::parse(b, 96)?;
    let pad = (8 - sig.dsize % 8) % 8;
    let hdr_at = 96 + sig.len() + pad;
    let hdr = RawHeader::parse(b, hdr_at)?;
    let payload_at = hdr_at + hdr.len();
    Some(Layout { sig, hdr, hdr_at, payload_at })
}

// ------------------------------------------------------------------ encoder for generated cases

/// Abstract entry from a TLC-generated case: {"tag":..,"type":..,"v":..} with v = list of byte
/// strings (types 6/8/9), list of integers (1..5, digit vectors for 4 and 5 allowed) or bytes (7);
/// or raw {"tag","type","offset","count"} against an explicit "store".
pub fn encode_value(typ: u32, v: &Value, store: &mut Vec<u8>) -> (i32, u32) {
    let align = match typ {
        T_INT16 => 2,
        T_INT32 => 4,
        T_INT64 => 8,
        _ => 1,
    };
    while store.len() % align != 0 {
        store.push(0);
    }
    let off = store.len() as i32;
    let items = v.as_array().cloned().unwrap_or_default();
    let num = |x: &Value| -> u64 {
        if let Some(a) = x.as_array() {
            a.iter().fold(0u64, |acc, d| (acc << 16) | d.as_u64().unwrap_or(0))
        } else {
            x.as_u64().unwrap_or(0)
        }
    };
    match typ {
        T_STRING | T_STRARR | T_I18N => {
            for s in &items {
                for c in s.as_array().cloned().unwrap_or_default() {
                    store.push(c.as_u64().unwrap_or(0) as u8);
                }
                store.push(0);
            }
        }
        T_INT16 => items.iter().for_each(|x| store.extend_from_slice(&(num(x) as u16).to_be_bytes())),
        T_INT32 => items.iter().for_each(|x| store.extend_from_slice(&(num(x) as u32).to_be_bytes())),
        T_INT64 => items.iter().for_each(|x| store.extend_from_slice(&num(x).to_be_bytes())),
        _ => items.iter().for_each(|x| store.push(num(x) as u8)),
    }
    (off, items.len() as u32)
}

pub fn entry_bytes(tag: u32, typ: u32, offset: i32, count: u32) -> [u8; 16] {
    let mut e = [0u8; 16];
    e[0..4].copy_from_slice(&tag.to_be_bytes());
    e[4..8].copy_from_slice(&typ.to_be_bytes());
    e[8..12].copy_from_slice(&offset.to_be_bytes());
    e[12..16].copy_from_slice(&count.to_be_bytes());
    e
}

/// Encode a well-formed header (region tag first, trailer last) from typed entries sorted by tag.
pub fn encode_wellformed(region: u32, entries: &[(u32, u32, Value)]) -> Vec<u8> {
    let mut sorted: Vec<&(u32, u32, Value)> = entries.iter().collect();
    sorted.sort_by_key(|e| e.0);
    let mut store = vec![];
    let mut idx = vec![];
    for (tag, typ, v) in sorted {
        let (off, cnt) = encode_value(*typ, v, &mut store);
        idx.push(entry_bytes(*tag, *typ, off, cnt));
    }
    let n = idx.len() + 1;
    let trailer_off = store.len() as i32;
    store.extend_from_slice(&entry_bytes(region, T_BIN, -(16 * n as i32), 16));
    let mut out = vec![0x8e, 0xad, 0xe8, 0x01, 0, 0, 0, 0];
    out.extend_from_slice(&(n as u32).to_be_bytes());
    out.extend_from_slice(&(store.len() as u32).to_be_bytes());
    out.extend_from_slice(&entry_bytes(region, T_BIN, trailer_off, 16));
    for e in idx {
        out.extend_from_slice(&e);
    }
    out.extend_from_slice(&store);
    out
}

/// Encode a header whose region covers the (sorted) `region_entries` only; `dribbles` are appended after it
/// in the given order - index entries after the region's, data behind the region trailer.
pub fn encode_dribble(region: u32, region_entries: &[(u32, u32, Value)], dribbles: &[(u32, u32, Value)]) -> Vec<u8> {
    let mut sorted: Vec<&(u32, u32, Value)> = region_entries.iter().collect();
    sorted.sort_by_key(|e| e.0);
    let mut store = vec![];
    let mut idx = vec![];
    for (tag, typ, v) in sorted {
        let (off, cnt) = encode_value(*typ, v, &mut store);
        idx.push(entry_bytes(*tag, *typ, off, cnt));
    }
    let ril = idx.len() + 1;
    let trailer_off = store.len() as i32;
    store.extend_from_slice(&entry_bytes(region, T_BIN, -(16 * ril as i32), 16));
    for (tag, typ, v) in dribbles {
        let (off, cnt) = encode_value(*typ, v, &mut store);
        idx.push(entry_bytes(*tag, *typ, off, cnt));
    }
    let n = idx.len() + 1;
    let mut out = vec![0x8e, 0xad, 0xe8, 0x01, 0, 0, 0, 0];
    out.extend_from_slice(&(n as u32).to_be_bytes());
    out.extend_from_slice(&(store.len() as u32).to_be_bytes());
    out.extend_from_slice(&entry_bytes(region, T_BIN, trailer_off, 16));
    for e in idx {
        out.extend_from_slice(&e);
    }
    out.extend_from_slice(&store);
    out
}

/// Encode a raw header exactly as described: intro bytes, raw index entries, raw store.
pub fn encode_raw(magic: [u8; 4], reserved: [u8; 4], nindex: u32, dsize: u32, entries: &[[i64; 4]], store: &[u8]) -> Vec<u8> {
    let mut out = magic.to_vec();
    out.extend_from_slice(&reserved);
    out.extend_from_slice(&nindex.to_be_bytes());
    out.extend_from_slice(&dsize.to_be_bytes());
    for e in entries {
        out.extend_from_slice(&entry_bytes(e[0] as u32, e[1] as u32, e[2] as i32, e[3] as u32));
    }
    out.extend_from_slice(store);
    out
}

pub fn lead_bytes(name: &str) -> Vec<u8> {
    let mut l = vec![0xed, 0xab, 0xee, 0xdb, 3, 0, 0, 0, 0, 1];
    let mut n = [0u8; 66];
    let nb = name.as_bytes();
    n[..nb.len().min(65)].copy_from_slice(&nb[..nb.len().min(65)]);
    l.extend_from_slice(&n);
    l.extend_from_slice(&[0, 1, 0, 5]);
    l.extend_from_slice(&[0u8; 16]);
    l
}

/// lead ++ sig ++ pad8 ++ hdr ++ payload
pub fn assemble(lead: &[u8], sig: &[u8], hdr: &[u8], payload: &[u8], pad_byte: u8) -> Vec<u8> {
    let mut out = lead.to_vec();
    out.extend_from_slice(sig);
    let dsize = if sig.len() >= 16 { u32::from_be_bytes([sig[12], sig[13], sig[14], sig[15]]) as usize } else { 0 };
    for _ in 0..((8 - dsize % 8) % 8) {
        out.push(pad_byte);
    }
    out.extend_from_slice(hdr);
    out.extend_from_slice(payload);
    out
}
