//! C17: builder argument validation - destinations, capability text, compression levels, metadata
//! strings. Every call runs under catch_unwind; compression levels additionally run in a child
//! process so that an abort inside a C encoder is attributed to its case.
use crate::util::*;
use rpm::{CompressionWithLevel, FileOptions, PackageBuilder};
use serde_json::json;

fn src_file() -> String {
    let p = std::env::temp_dir().join(format!("rpm_verif_c17_{}.txt", std::process::id()));
    std::fs::write(&p, b"hello world\n").unwrap();
    p.to_string_lossy().to_string()
}

fn outcome<T, E>(r: Result<Result<T, E>, String>) -> (&'static str, String) {
    match r {
        Ok(Ok(_)) => ("ok", String::new()),
        Ok(Err(_)) => ("err", String::new()),
        Err(m) => ("panic", m),
    }
}

fn parse_level(kind: &str, level: i64) -> Option<CompressionWithLevel> {
    Some(match kind {
        "none" => CompressionWithLevel::None,
        "gzip" => CompressionWithLevel::Gzip(u32::try_from(level).ok()?),
        "xz" => CompressionWithLevel::Xz(u32::try_from(level).ok()?),
        "bzip2" => CompressionWithLevel::Bzip2(u32::try_from(level).ok()?),
        "zstd" => CompressionWithLevel::Zstd(i32::try_from(level).ok()?),
        _ => return None,
    })
}

/// child entry point: build one package with the given compression; exit code 0 ok, 3 err, 4 panic
pub fn run_level_child(args: &Args) {
    let kind = args.req("kind").to_string();
    let level: i64 = args.req("level").parse().unwrap();
    let src = args.req("src").to_string();
    let c = parse_level(&kind, level).unwrap();
    let r = guarded(|| {
        let pkg = PackageBuilder::new("lvl", "1.0", "MIT", "noarch", "level test")
            .compression(c)
            .with_file(&src, FileOptions::new("/usr/share/lvl/file.txt"))?
            .build()?;
        let mut out = Vec::new();
        pkg.write(&mut Plain(&mut out))?;
        Ok::<_, rpm::Error>(())
    });
    std::process::exit(match outcome(r).0 {
        "ok" => 0,
        "err" => 3,
        _ => 4,
    });
}

pub fn run(args: &Args) {
    let mut t = Tracer::create(args.req("out"));
    let mut rng = Rng::new(args.seed());
    let src = src_file();
    // destinations: complete domain over {/ . a b} up to maxlen (canonical enumeration)
    let sigma: Vec<u32> = vec![47, 46, 97, 98];
    let maxlen = args.num("maxlen", 6) as usize;
    let n = dom_size(4, maxlen);
    for i in 0..n {
        let dest = from_codes(&nth_str(&sigma, i));
        let (o, msg) = outcome(guarded(|| {
            PackageBuilder::new("d", "1", "MIT", "noarch", "dest test")
                .compression(CompressionWithLevel::None)
                .with_file(&src, FileOptions::new(dest.clone()))?
                .build()
        }));
        t.emit(json!({"event":"Dest","i":i,"dest":codes(&dest),"outcome":o,"msg":msg}));
    }
    // a few longer / unusual destinations
    for dest in ["", "/..", "/../..", "./../a", "/a/b/../..", "/a/./.", "//", "///a", "/a//", "./a/..", "/é", "./\u{0}", "/a\u{0}b",
                 "/aaaaaaaaaaaaaaaaaaaaaaaaaaaaaaaaaaaaaaaaaaaaaaaaaaaaaaaaaaaaaaaaaaaaaaaaaaaaaaaaaaaaaaaaaaaaaaaaaaaaaaaaaaaaaaaaaaaaaaaaaaaaaaaaaaaaaaaaaaaaaaaaaaa/b"] {
        let (o, msg) = outcome(guarded(|| {
            PackageBuilder::new("d", "1", "MIT", "noarch", "dest test")
                .compression(CompressionWithLevel::None)
                .with_file(&src, FileOptions::new(dest))?
                .build()
        }));
        t.emit(json!({"event":"Dest","dest":codes(dest),"outcome":o,"msg":msg}));
    }
    // several destinations in one package, in every hand-over order: files next to sub-directories that sort before and
    // after them, nested and sibling directories, a name that continues another one
    let pool = ["/a/b/x", "/a/c", "/b/x", "/c", "/a/b/y", "/a/x", "/a/b/c/d", "/a/bb", "/a/b.x", "/a/b"];
    let mut sets: Vec<Vec<&str>> = vec![];
    for i in 0..pool.len() { for j in 0..pool.len() { if i != j {
        sets.push(vec![pool[i], pool[j]]);
        for k in 0..pool.len() { if k != i && k != j && (i + 2 * j + 3 * k) % 3 == 0 { sets.push(vec![pool[i], pool[j], pool[k]]); } }
    } } }
    for dests in sets {
        let (o, msg) = outcome(guarded(|| {
            let mut b = PackageBuilder::new("d", "1", "MIT", "noarch", "dest set").compression(CompressionWithLevel::None);
            for d in &dests { b = b.with_file(&src, FileOptions::new(*d))?; }
            b.build()
        }));
        let mut fields = vec!["dests".to_string()];
        fields.extend(dests.iter().map(|d| d.to_string()));
        t.emit(json!({"event":"Meta","fields":fields,"outcome":o,"msg":msg}));
    }
    // capability text through the builder path (FileOptions::caps -> with_file -> build)
    let toks = ["cap_chown", "CAP_KILL", "all", "cap_bogus", ",", "=", "+", "-", "e", "i", "p", "x", " "];
    let idx: Vec<u32> = (1..=13).collect();
    let ncaps = dom_size(13, args.num("capstok", 3) as usize);
    for i in 0..ncaps {
        let text: String = nth_str(&idx, i).iter().map(|&k| toks[(k - 1) as usize]).collect();
        let (o, msg) = outcome(guarded(|| {
            let fo = FileOptions::new("/usr/bin/x").caps(text.clone())?;
            PackageBuilder::new("c", "1", "MIT", "noarch", "caps test")
                .compression(CompressionWithLevel::None)
                .with_file(&src, fo)?
                .build()
        }));
        t.emit(json!({"event":"CapsArg","text":codes(&text),"outcome":o,"msg":msg}));
    }
    // capability text with characters that are not ASCII (in front of the operator, inside names, alone)
    for text in ["é=p", "cap_chowné+ep", "cap_chown,ü=ep", "日=e", "=e cäp_chown-e", "cap_ſyslog=e", "cap_chown=é", "é", "cap_chown=p é=e"] {
        let text = text.to_string();
        let (o, msg) = outcome(guarded(|| {
            let fo = FileOptions::new("/usr/bin/x").caps(text.clone())?;
            PackageBuilder::new("c", "1", "MIT", "noarch", "caps test")
                .compression(CompressionWithLevel::None)
                .with_file(&src, fo)?
                .build()
        }));
        t.emit(json!({"event":"CapsArg","text":codes(&text),"outcome":o,"msg":msg}));
    }
    // compression levels across and beyond each range, one child process per case
    let exe = std::env::current_exe().unwrap();
    let mut cases: Vec<(&str, i64)> = vec![("none", 0)];
    for l in (0..=12).chain([13, 31, 32, 64, 100, 255, 256, 1000, u32::MAX as i64, i32::MAX as i64]) {
        cases.push(("gzip", l));
        cases.push(("xz", l));
        cases.push(("bzip2", l));
    }
    for l in (-8..=25).chain([-100, -131072, -200000, 100, 1000, i32::MAX as i64, i32::MIN as i64, i32::MIN as i64 + 1]) {
        cases.push(("zstd", l));
    }
    for (kind, level) in cases {
        let st = std::process::Command::new(&exe)
            .args(["c17-level", "--kind", kind, "--level", &level.to_string(), "--src", &src])
            .stdout(std::process::Stdio::null())
            .stderr(std::process::Stdio::null())
            .status();
        let o = match st.as_ref().ok().and_then(|s| s.code()) {
            Some(0) => "ok".to_string(),
            Some(3) => "err".to_string(),
            Some(4) => "panic".to_string(),
            Some(c) => format!("exit{c}"),
            None => "abort".to_string(),
        };
        t.emit(json!({"event":"Level","kind":kind,"level":level,"outcome":o}));
    }
    // numbers handed to the file setters: every kind of mode value (i32 and u16 routes), with and without a link target
    {
        let mut modes: Vec<i64> = vec![i32::MIN as i64, i32::MIN as i64 + 1, -65537, -65536, -65535, -40000, -32769, -32768, -32767, -16385,
                                       -4096, -512, -2, -1, 0, 1, 0o777, 0o7777, 0o10000, 0o40755, 0o100644, 0o100664, 0o120777, 0o140000,
                                       0o170000, 0o177777, 65536, 65537, 100000, i32::MAX as i64];
        let mut x = -70001i64;
        while x < 70000 { modes.push(x); x += 997; }
        for m in modes {
            let (o, msg) = outcome(guarded(|| {
                let opts = FileOptions::new("/usr/share/verif/mode-file").mode(m as i32);
                let pkg = PackageBuilder::new("modes", "1", "MIT", "noarch", "s").compression(CompressionWithLevel::None)
                    .with_file(&src, opts)?.build()?;
                let mut out = Vec::new();
                pkg.write(&mut Plain(&mut out))?;
                Ok::<_, rpm::Error>(())
            }));
            t.emit(json!({"event":"Meta","fields":["mode(i32)", m.to_string()],"outcome":o,"msg":msg}));
            if (0..=65535).contains(&m) {
                let (o, msg) = outcome(guarded(|| {
                    let opts = FileOptions::new("/usr/share/verif/mode-file").mode(m as u16).symlink("target");
                    let pkg = PackageBuilder::new("modes", "1", "MIT", "noarch", "s").with_file(&src, opts)?.build()?;
                    let mut out = Vec::new();
                    pkg.write(&mut Plain(&mut out))?;
                    Ok::<_, rpm::Error>(())
                }));
                t.emit(json!({"event":"Meta","fields":["mode(u16)+symlink", m.to_string()],"outcome":o,"msg":msg}));
            }
        }
    }
    // metadata setters with arbitrary strings
    let long_accented = "é".repeat(40);
    let long_cjk = "日".repeat(30);
    let long_mixed = format!("üüüüü{}", "n".repeat(65));
    let pool: Vec<&str> = vec!["", "a", "multi\nline", "é日本", "x\u{0}y", " ", "-", "1:2-3", "%{macro}", "a/b", "\u{1F600}",
                               &long_accented, &long_cjk, &long_mixed];
    let long = "L".repeat(70000);
    let nmeta = args.num("meta", 300);
    for k in 0..nmeta {
        let mut pick = |rng: &mut Rng| -> String { if rng.chance(1, 40) { long.clone() } else { rng.pick(&pool).to_string() } };
        let f: Vec<String> = (0..16).map(|_| pick(&mut rng)).collect();
        let epoch = *rng.pick(&[0u32, 1, u32::MAX]);
        let (o, msg) = outcome(guarded(|| {
            let pkg = PackageBuilder::new(&f[0], &f[1], &f[2], &f[3], &f[4])
                .release(f[5].clone()).epoch(epoch).description(f[6].clone()).vendor(f[7].clone()).url(f[8].clone())
                .vcs(f[9].clone()).packager(f[10].clone()).group(f[11].clone()).cookie(&f[12]).build_host(&f[13])
                .pre_install_script(f[14].clone())
                .add_changelog_entry(&f[15], &f[6], *[0u32, 1, u32::MAX].get((k % 3) as usize).unwrap())
                .compression(CompressionWithLevel::None)
                .build()?;
            let mut out = Vec::new();
            pkg.write(&mut Plain(&mut out))?;
            Ok::<_, rpm::Error>(())
        }));
        t.emit(json!({"event":"Meta","fields":f.iter().map(|s| s.chars().take(12).collect::<String>()).collect::<Vec<_>>(),"outcome":o,"msg":msg}));
    }
    let _ = std::fs::remove_file(&src);
    t.flush();
}
