//! C03: digest verification. (1) every row of the specification's decision table materialised on
//! a hand-encoded carrier package; (2) single-bit flips of header and payload of intact real
//! packages, where the harness re-derives the abstract digest state with its own decoder and
//! hashing. The specification (Trace_C03 / Digests!Allowed) decides which outcomes are legal.
use crate::cfggen as gen_;
use crate::pkg::asset_paths;
use crate::pkgobs::err_name;
use crate::rawhdr::{self, *};
use crate::util::*;
use md5::Md5;
use rpm::Package;
use serde_json::{Value, json};
use sha1::Sha1;
use sha2::{Digest, Sha256};

fn bytes_v(b: &[u8]) -> Value {
    json!([b])
}
fn s_v(s: &str) -> Value {
    json!([s.as_bytes()])
}

fn spoil_hex(s: &str, pos: &str) -> String {
    // a recorded digest of another length differs as well
    match pos {
        "second" => return spoil_hex(s, "middle"),
        "short" => return s[..s.len() - 1].to_string(),
        "long" => return format!("{s}0"),
        _ => {}
    }
    let mut c: Vec<char> = s.chars().collect();
    let i = match pos { "first" => 0, "last" => c.len() - 1, _ => c.len() / 2 };
    c[i] = if c[i] == '0' { '1' } else { '0' };
    c.into_iter().collect()
}
fn spoil_bin(b: &[u8], pos: &str) -> Vec<u8> {
    let mut c = b.to_vec();
    match pos {
        "second" => return spoil_bin(b, "middle"),
        "short" => { c.pop(); return c; }
        "long" => { c.push(0); return c; }
        _ => {}
    }
    let i = match pos { "first" => 0, "last" => c.len() - 1, _ => c.len() / 2 };
    c[i] ^= 0x01;
    c
}

/// build a minimal well-formed package whose digest tags are in the abstract state `d`
pub fn materialise(d: &Value, pos: &str) -> Vec<u8> {
    // the payload is a gzip stream, so that the digest of what it decompresses to (recorded, truthfully, under the
    // "alternate" tag, which verification has no business comparing with the payload) differs from the payload's own
    let plain: Vec<u8> = (0..37u8).map(|i| i.wrapping_mul(11)).collect();
    let payload: Vec<u8> = {
        use std::io::Write;
        let mut e = flate2::GzBuilder::new().mtime(0).write(Vec::new(), flate2::Compression::new(6));
        e.write_all(&plain).unwrap();
        e.finish().unwrap()
    };
    let pay_sha = hex(&Sha256::digest(&payload));
    let mut h: Vec<(u32, u32, Value)> = vec![
        (1000, T_STRING, s_v("carrier")), (1001, T_STRING, s_v("1")), (1002, T_STRING, s_v("1")),
        (1004, T_I18N, s_v("s")), (1022, T_STRING, s_v("noarch")),
        // an entry of every integer-like data type (rpm itself stores FILESTATES as CHAR): what is hashed are the header's
        // own bytes, whatever their types
        (1029, T_CHAR, json!([1, 0])), (1033, T_INT16, json!([0, 7])), (5009, T_INT64, json!([[0, 0, 0, 37]])), (1101, T_INT8, json!([3])),
        (1125, T_STRING, s_v("gzip")), (5097, T_STRARR, s_v(&hex(&Sha256::digest(&plain)))),
    ];
    match d["payload"].as_str().unwrap() {
        "absent" => {}
        "wrongtype" => h.push((5092, T_INT32, json!([7]))),
        "match" => h.push((5092, T_STRARR, s_v(&pay_sha))),
        // (with position "second": an array whose first item is wrong and whose second item is right - the recorded
        // digest is the first)
        "mismatch" if pos == "second" => h.push((5092, T_STRARR, json!([spoil_hex(&pay_sha, "middle").as_bytes(), pay_sha.as_bytes()]))),
        "mismatch" => h.push((5092, T_STRARR, s_v(&spoil_hex(&pay_sha, pos)))),
        _ => h.push((5092, T_STRARR, json!([]))),
    }
    match d["algo"].as_str().unwrap() {
        "absent" => {}
        "wrongtype" => h.push((5093, T_STRING, s_v("8"))),
        // (with position "second": an algorithm entry of two items - the algorithm is the first)
        "sha256" if pos == "second" => h.push((5093, T_INT32, json!([[0, 8], [0, 1]]))),
        "sha256" => h.push((5093, T_INT32, json!([8]))),
        "other_known" if pos == "second" => h.push((5093, T_INT32, json!([[0, 10], [0, 8]]))),
        "other_known" => h.push((5093, T_INT32, json!([if pos == "first" { 1 } else { 10 }]))),
        _ if pos == "second" => h.push((5093, T_INT32, json!([[0, 99], [0, 8]]))),
        _ => h.push((5093, T_INT32, json!([if pos == "first" { 99 } else { 0 }]))),
    }
    let hdr = encode_wellformed(63, &h);
    let mut hp = hdr.clone();
    hp.extend_from_slice(&payload);
    let md5 = Md5::digest(&hp).to_vec();
    let sha1 = hex(&Sha1::digest(&hdr));
    let sha256 = hex(&Sha256::digest(&hdr));
    let mut s: Vec<(u32, u32, Value)> = vec![];
    match d["md5"].as_str().unwrap() {
        "absent" => {}
        "wrongtype" => s.push((1004, T_STRING, s_v(&hex(&md5)))),
        "match" => s.push((1004, T_BIN, json!(md5.iter().map(|x| json!([x])).collect::<Vec<_>>()))),
        _ => s.push((1004, T_BIN, json!(spoil_bin(&md5, pos).iter().map(|x| json!([x])).collect::<Vec<_>>()))),
    }
    match d["sha1"].as_str().unwrap() {
        "absent" => {}
        "wrongtype" => s.push((269, T_BIN, bytes_v(sha1.as_bytes())["0"].clone())),
        "match" => s.push((269, T_STRING, s_v(&sha1))),
        _ => s.push((269, T_STRING, s_v(&spoil_hex(&sha1, pos)))),
    }
    match d["sha256"].as_str().unwrap() {
        "absent" => {}
        "wrongtype" => s.push((273, T_STRARR, s_v(&sha256))),
        "match" => s.push((273, T_STRING, s_v(&sha256))),
        _ => s.push((273, T_STRING, s_v(&spoil_hex(&sha256, pos)))),
    }
    // the wrong-typed SHA1 above is a BIN entry holding the hex text
    for e in s.iter_mut() {
        if e.0 == 269 && e.1 == T_BIN {
            e.2 = json!(sha1.as_bytes().iter().map(|x| json!([x])).collect::<Vec<_>>());
        }
    }
    let sig = encode_wellformed(62, &s);
    rawhdr::assemble(&lead_bytes("carrier"), &sig, &hdr, &payload, 0)
}

/// the abstract digest state of a package file, derived with the harness's own decoder and hashing
pub fn digest_state(b: &[u8]) -> Option<Value> {
    let lay = rawhdr::layout(b)?;
    // The four reserved bytes of the intro carry no information and are zero in every header rpm
    // accepts; the library (like C01 permits) reads them as zero. Digests are taken over that
    // canonical form - for a file with non-zero reserved bytes the statement does not say which
    // reading "the package's own bytes" means.
    let mut hdr_canon = b[lay.hdr_at..lay.payload_at].to_vec();
    for x in hdr_canon.iter_mut().skip(4).take(4) {
        *x = 0;
    }
    let hdr = &hdr_canon[..];
    let payload = &b[lay.payload_at..];
    let st = |found: Option<&RawEntry>, okty: &[u32], cmp: &dyn Fn() -> Option<bool>| -> &'static str {
        match found {
            None => "absent",
            Some(e) if !okty.contains(&e.typ) => "wrongtype",
            Some(_) => match cmp() { Some(true) => "match", Some(false) => "mismatch", None => "wrongtype" },
        }
    };
    let md5 = st(lay.sig.find(1004), &[T_BIN], &|| {
        let mut hp = hdr.to_vec();
        hp.extend_from_slice(payload);
        lay.sig.bin(b, 1004).map(|r| r == Md5::digest(&hp).to_vec())
    });
    let sha1 = st(lay.sig.find(269), &[T_STRING], &|| lay.sig.strings(b, 269).and_then(|v| v.first().map(|s| s[..] == *hex(&Sha1::digest(hdr)).as_bytes())));
    let sha256 = st(lay.sig.find(273), &[T_STRING], &|| lay.sig.strings(b, 273).and_then(|v| v.first().map(|s| s[..] == *hex(&Sha256::digest(hdr)).as_bytes())));
    let payload_st = match lay.hdr.find(5092) {
        None => "absent",
        Some(e) if ![T_STRARR, T_I18N].contains(&e.typ) => "wrongtype",
        Some(e) if e.count == 0 => "empty",
        Some(_) => match lay.hdr.strings(b, 5092).and_then(|v| v.first().map(|s| s[..] == *hex(&Sha256::digest(payload)).as_bytes())) {
            Some(true) => "match",
            Some(false) => "mismatch",
            None => "wrongtype",
        },
    };
    let algo = match lay.hdr.find(5093) {
        None => "absent",
        Some(e) if e.typ != T_INT32 || e.count == 0 => "wrongtype",
        Some(_) => match lay.hdr.u32s(b, 5093).and_then(|v| v.first().copied()) {
            Some(8) => "sha256",
            Some(1) | Some(9) | Some(10) | Some(11) | Some(12) | Some(14) => "other_known",
            Some(_) => "unknown",
            None => "wrongtype",
        },
    };
    Some(json!({"md5": md5, "sha1": sha1, "sha256": sha256, "payload": payload_st, "algo": algo}))
}

/// the same package with the index entries behind the region entry of the signature header (and, with `both`, of the
/// main header) in reverse order: stores untouched, so every digest state is unchanged
pub fn reorder_index(bytes: &[u8], both: bool) -> Option<Vec<u8>> {
    let lay = rawhdr::layout(bytes)?;
    let mut out = bytes.to_vec();
    let mut hs = vec![&lay.sig];
    if both { hs.push(&lay.hdr); }
    for h in hs {
        let n = h.entries.len();
        if n < 3 { continue; }
        let first = if h.entries[0].tag == 62 || h.entries[0].tag == 63 { 1 } else { 0 };
        let blocks: Vec<Vec<u8>> = (first..n).map(|k| bytes[h.at + 16 + 16 * k..h.at + 32 + 16 * k].to_vec()).collect();
        for (j, blk) in blocks.iter().rev().enumerate() {
            let at = h.at + 16 + 16 * (first + j);
            out[at..at + 16].copy_from_slice(blk);
        }
    }
    Some(out)
}

/// the same package with the index entries behind the region entry of the signature header permuted (k = 0: as they
/// are, 1: reversed, 2 / 3: rotated, 4 / 5: first / last two swapped, 6: largest tag first, 7: smallest tag last)
pub fn permute_sig_index(bytes: &[u8], k: usize) -> Option<Vec<u8>> {
    let lay = rawhdr::layout(bytes)?;
    let h = &lay.sig;
    let n = h.entries.len();
    let first = if n > 0 && h.entries[0].tag == 62 { 1 } else { 0 };
    let mut order: Vec<usize> = (first..n).collect();
    let m = order.len();
    if m >= 2 {
        match k % 8 {
            0 => {}
            1 => order.reverse(),
            2 => order.rotate_left(1),
            3 => order.rotate_right(1),
            4 => order.swap(0, 1),
            5 => order.swap(m - 2, m - 1),
            6 => { let x = order.pop().unwrap(); order.insert(0, x); order[1..].reverse(); }
            _ => { let x = order.remove(0); order.push(x); let l = order.len(); order[..l - 1].reverse(); }
        }
    }
    let mut out = bytes.to_vec();
    for (j, src) in order.iter().enumerate() {
        let at = h.at + 16 + 16 * (first + j);
        out[at..at + 16].copy_from_slice(&bytes[h.at + 16 + 16 * src..h.at + 32 + 16 * src]);
    }
    Some(out)
}

fn verify(bytes: &[u8]) -> Option<String> {
    let p = match guarded(|| Package::parse(&mut &bytes[..])) {
        Ok(Ok(p)) => p,
        Ok(Err(_)) => return None,
        Err(_) => return Some("panic".into()),
    };
    Some(match guarded(|| p.verify_digests()) {
        Ok(Ok(())) => "ok".into(),
        Ok(Err(e)) => err_name(&e),
        Err(_) => "panic".into(),
    })
}

pub fn run(args: &Args) {
    let mut t = Tracer::create(args.req("out"));
    let mut rng = Rng::new(args.seed());
    if let Some(cases) = args.get("cases") {
        for (i, line) in std::fs::read_to_string(cases).unwrap().lines().enumerate() {
            if line.trim().is_empty() { continue; }
            let c: Value = serde_json::from_str(line).unwrap();
            let bytes = materialise(&c["d"], c["pos"].as_str().unwrap());
            let derived = digest_state(&bytes).unwrap_or(json!(null));
            match verify(&bytes) {
                Some(o) => t.emit(json!({"event":"Digest","origin":format!("table:{i}"),"d":derived,"case_d":c["d"],"pos":c["pos"],"outcome":o})),
                None => t.emit(json!({"event":"ParseErr","origin":format!("table:{i}"),"case_d":c["d"]})),
            };
            // the same file cut off behind the main header (no payload bytes at all): whatever digest of the payload is
            // recorded, it is now compared with the digest of nothing
            if i % 4 == 0 {
                if let Some(l) = rawhdr::layout(&bytes) {
                    let cutb = &bytes[..l.payload_at];
                    let d2 = digest_state(cutb).unwrap_or(json!(null));
                    match verify(cutb) {
                        Some(o) => t.emit(json!({"event":"Digest","origin":format!("table-cut:{i}"),"d":d2,"pos":c["pos"],"outcome":o})),
                        None => t.emit(json!({"event":"ParseErr","origin":format!("table-cut:{i}")})),
                    };
                }
            }
            // the same row with the index entries in another order (a header need not be sorted to be read)
            if c["pos"] == "first" || i % 3 == 0 {
                if let Some(rb) = reorder_index(&bytes, false) {
                    let d2 = digest_state(&rb).unwrap_or(json!(null));
                    match verify(&rb) {
                        Some(o) => t.emit(json!({"event":"Digest","origin":format!("table-reordered:{i}"),"d":d2,"case_d":c["d"],"pos":c["pos"],"outcome":o})),
                        None => t.emit(json!({"event":"ParseErr","origin":format!("table-reordered:{i}"),"case_d":c["d"]})),
                    };
                }
            }
        }
    }
    // single-bit flips on intact real packages
    let mut carriers: Vec<(String, Vec<u8>)> = vec![];
    for p in asset_paths() {
        let b = std::fs::read(&p).unwrap();
        if b.len() < 30000 {
            carriers.push((p.rsplit('/').next().unwrap().to_string(), b));
        }
    }
    let wd = gen_::Workdir::new("c03");
    for k in 0..2 {
        let mut cfg = gen_::rand_cfg(&mut rng, 2, 300);
        cfg.compression = Some((["gzip", "none"][k].to_string(), None));
        if let Ok(Ok(p)) = guarded(|| gen_::build(&cfg, &wd)) {
            let mut out = vec![];
            p.write(&mut Plain(&mut out)).unwrap();
            carriers.push((format!("built{k}"), out));
        }
    }
    // every carrier also with its index entries reordered
    let more: Vec<(String, Vec<u8>)> = carriers.iter().filter(|(_, b)| b.len() < 30000)
        .filter_map(|(n, b)| reorder_index(b, false).map(|r| (format!("{n}-reordered"), r))).collect();
    carriers.extend(more);
    let nflips = args.num("flips", 1500) as usize;
    for (name, base) in &carriers {
        let Some(lay) = rawhdr::layout(base) else { continue };
        // intact first
        if let (Some(d), Some(o)) = (digest_state(base), verify(base)) {
            t.emit(json!({"event":"Digest","origin":format!("intact:{name}"),"d":d,"outcome":o}));
        }
        // bytes behind the payload are payload (the file ends where it ends, whatever a size field announces), and a size
        // field in the signature header that announces less or more changes no digest
        let mut variants: Vec<(String, Vec<u8>)> = vec![];
        for extra in [1usize, 26] {
            let mut m = base.clone();
            m.extend((0..extra).map(|i| (i as u8).wrapping_mul(37).wrapping_add(1)));
            variants.push((format!("trail{extra}"), m));
        }
        for (tag, width) in [(1000u32, 4usize), (270, 8)] {
            if let Some(e) = lay.sig.find(tag) {
                let at = lay.sig.store_at + e.offset as usize;
                if e.count == 1 && at + width <= base.len() {
                    for (what, delta) in [("less", -1i64), ("half", i64::MIN), ("more", 5)] {
                        let mut m = base.clone();
                        let cur = m[at..at + width].iter().fold(0u64, |a, b| (a << 8) | *b as u64);
                        let new = if delta == i64::MIN { cur / 2 } else { (cur as i64 + delta).max(0) as u64 };
                        for k in 0..width { m[at + k] = (new >> (8 * (width - 1 - k))) as u8; }
                        variants.push((format!("size{tag}-{what}"), m));
                    }
                }
            }
        }
        for (what, m) in variants {
            match (digest_state(&m), verify(&m)) {
                (Some(d), Some(o)) => t.emit(json!({"event":"Digest","origin":format!("{what}:{name}"),"d":d,"outcome":o})),
                (_, None) => t.emit(json!({"event":"ParseErr","origin":format!("{what}:{name}")})),
                (None, Some(o)) => t.emit(json!({"event":"Undecodable","origin":format!("{what}:{name}"),"outcome":o})),
            };
        }
        let total_bits = (base.len() - 96) * 8;
        let exhaustive = total_bits <= nflips;
        let n = if exhaustive { total_bits } else { nflips };
        for k in 0..n {
            let bit = if exhaustive { k } else {
                // bias towards the metadata region
                if rng.chance(2, 3) { rng.below(((lay.payload_at - 96) * 8) as u64) as usize } else { rng.below(total_bits as u64) as usize }
            };
            let mut m = base.clone();
            m[96 + bit / 8] ^= 1 << (bit % 8);
            match (digest_state(&m), verify(&m)) {
                (Some(d), Some(o)) => t.emit(json!({"event":"Digest","origin":format!("flip:{name}:{}", 96 * 8 + bit),"d":d,"outcome":o})),
                (_, None) => t.emit(json!({"event":"ParseErr","origin":format!("flip:{name}:{}", 96 * 8 + bit)})),
                (None, Some(o)) => t.emit(json!({"event":"Undecodable","origin":format!("flip:{name}:{}", 96 * 8 + bit),"outcome":o})),
            };
        }
    }
    t.flush();
}
