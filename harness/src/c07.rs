//! C07 (+ C09 payload part, C08 file digests): payload iteration. For each package the harness
//! records the header's file list (own decoder), a scan of the independently decompressed archive
//! (own 40-line scanner; raw bytes too when small) and everything Package::files() yields.
use crate::cfggen as gen_;
use crate::pkg::asset_paths;
use crate::pkgobs::{decompress, err_name};
use crate::rawhdr::{self, *};
use crate::util::*;
use md5::Md5;
use rpm::Package;
use serde_json::{Value, json};
use sha2::{Digest, Sha256};

pub struct HFile {
    pub path: Vec<u8>,
    pub size: u64,
    pub mode: u16,
    pub digest: String,
}

pub fn header_files(b: &[u8], hdr: &RawHeader) -> Option<Vec<HFile>> {
    let Some(base) = hdr.strings(b, 1117) else { return Some(vec![]) };
    let dirs = hdr.strings(b, 1118)?;
    let idx = hdr.u32s(b, 1116)?;
    let sizes: Vec<u64> = match hdr.u64s(b, 5008) { Some(v) => v, None => hdr.u32s(b, 1028)?.into_iter().map(|x| x as u64).collect() };
    let modes = hdr.u16s(b, 1030)?;
    let digests = hdr.strings(b, 1035)?;
    let mut out = vec![];
    for i in 0..base.len() {
        let mut p = dirs.get(*idx.get(i)? as usize)?.clone();
        p.extend_from_slice(&base[i]);
        out.push(HFile { path: p, size: *sizes.get(i)?, mode: *modes.get(i)?, digest: String::from_utf8_lossy(digests.get(i)?).to_string() });
    }
    Some(out)
}

fn hex8(a: &[u8], at: usize) -> Option<u64> {
    let s = std::str::from_utf8(a.get(at..at + 8)?).ok()?;
    u64::from_str_radix(s, 16).ok()
}
fn pad4(n: usize) -> usize {
    (n + 3) / 4 * 4
}

/// the harness's own archive scanner: entry table + whether only zero bytes follow the trailer
pub fn scan(a: &[u8], files: &[HFile]) -> Option<(Vec<Value>, bool)> {
    let mut at = 0usize;
    let mut ents = vec![];
    for _ in 0..100000 {
        let magic = a.get(at..at + 6)?;
        if magic == b"07070X" {
            let ix = hex8(a, at + 6)? as usize;
            let size = files.get(ix)?.size as usize;
            let data_at = at + 16;
            let data = a.get(data_at..data_at + size)?;
            ents.push(json!({"kind":"stripped","hdr_at":at,"index":ix,"size":size,"data_at":data_at,"sha":hex(&Sha256::digest(data))}));
            at = pad4(data_at + size);
        } else if magic == b"070701" || magic == b"070702" {
            let mode = hex8(a, at + 14)?;
            let size = hex8(a, at + 54)? as usize;
            let nsz = hex8(a, at + 94)? as usize;
            if nsz == 0 { return None; }
            if *a.get(at + 110 + nsz - 1)? != 0 { return None; }      // the name must be NUL-terminated inside namesize
            let name = a.get(at + 110..at + 110 + nsz - 1)?.to_vec();
            let data_at = pad4(at + 110 + nsz);
            if name == b"TRAILER!!!" {
                ents.push(json!({"kind":"trailer","hdr_at":at,"name":name,"namesize":nsz,"mode":mode,"size":size,"data_at":data_at}));
                let tail_zero = a.get(data_at.min(a.len())..).map(|t| t.iter().all(|&x| x == 0)).unwrap_or(true);
                return Some((ents, tail_zero));
            }
            let data = a.get(data_at..data_at + size)?;
            ents.push(json!({"kind":"newc","hdr_at":at,"name":name,"namesize":nsz,"mode":mode,"size":size,"data_at":data_at,"sha":hex(&Sha256::digest(data))}));
            at = pad4(data_at + size);
        } else {
            return None;
        }
    }
    None
}

pub fn files_event(bytes: &[u8], origin: &str, emitted: bool, cfg_paths: Option<Vec<Vec<u8>>>) -> Value {
    let Some(lay) = rawhdr::layout(bytes) else { return json!({"event":"Undecodable","origin":origin}) };
    let Some(files) = header_files(bytes, &lay.hdr) else { return json!({"event":"Undecodable","origin":origin,"what":"file list"}) };
    let comp = lay.hdr.string(bytes, 1125).unwrap_or_else(|| "none".into());
    let payload = &bytes[lay.payload_at..];
    let Some(archive) = decompress(&comp, payload) else { return json!({"event":"Undecodable","origin":origin,"what":"payload"}) };
    let Some((ents, tail_zero)) = scan(&archive, &files) else { return json!({"event":"Undecodable","origin":origin,"what":"archive scan"}) };
    let algo = lay.hdr.u32s(bytes, 5011).and_then(|v| v.first().copied()).unwrap_or(1);
    let iter = guarded(|| -> Result<Vec<Value>, rpm::Error> {
        let p = Package::parse(&mut &bytes[..])?;
        let mut out = vec![];
        for (n, f) in p.files()?.enumerate() {
            if n > files.len() + 4 { break; }
            let f = f?;
            let cd = match algo { 8 => hex(&Sha256::digest(&f.content)), 1 => hex(&Md5::digest(&f.content)), _ => String::new() };
            out.push(json!({"path": f.metadata.path.to_string_lossy().as_bytes(), "meta_size": f.metadata.size,
                            "content_len": f.content.len(), "content_sha": hex(&Sha256::digest(&f.content)),
                            "meta_digest": f.metadata.digest.as_ref().map(|d| d.as_hex().to_string()).unwrap_or_default(),
                            "content_digest": cd}));
        }
        Ok(out)
    });
    let iter_v = match iter {
        Ok(Ok(v)) => json!({"ok": v}),
        Ok(Err(e)) => json!({"err": err_name(&e)}),
        Err(m) => json!({"panic": m}),
    };
    let mut ev = json!({"event":"Files","origin":origin,"emitted":emitted,"compressor":comp,
        "magic": &payload[..payload.len().min(6)],
        "files": files.iter().map(|f| json!({"path": f.path, "size": f.size, "mode": f.mode, "digest": f.digest})).collect::<Vec<_>>(),
        "ents": ents, "archive_len": archive.len(), "tail_zero": tail_zero, "iter": iter_v});
    if archive.len() <= 6000 {
        ev["archive_bytes"] = json!(archive);
    }
    if let Some(p) = cfg_paths {
        ev["cfg_paths"] = json!(p);
    }
    if emitted {
        if let Some(d) = crate::pkgobs::digests(bytes, vec![]) {
            ev["dig"] = d;
        }
    }
    if ev["iter"].get("panic").is_some() {
        ev["event"] = json!("Panic");
    }
    ev
}

pub fn newc_entry(name: &str, mode: u32, data: &[u8], ino: u32) -> Vec<u8> {
    let mut h = format!("070701{:08x}{:08x}{:08x}{:08x}{:08x}{:08x}{:08x}{:08x}{:08x}{:08x}{:08x}{:08x}{:08x}",
                        ino, mode, 0, 0, 1, 0, data.len(), 0, 0, 0, 0, name.len() + 1, 0).into_bytes();
    h.extend_from_slice(name.as_bytes());
    h.push(0);
    while h.len() % 4 != 0 { h.push(0); }
    h.extend_from_slice(data);
    while h.len() % 4 != 0 { h.push(0); }
    h
}

/// a foreign-style package from a Gen_Cpio case
fn encode_case(c: &Value) -> Vec<u8> {
    let n = c["n"].as_u64().unwrap() as usize;
    let names: Vec<String> = c["names"].as_array().unwrap().iter().map(|x| from_codes(&x.as_array().unwrap().iter().map(|y| y.as_u64().unwrap() as u32).collect::<Vec<_>>())).collect();
    let sizes: Vec<usize> = c["sizes"].as_array().unwrap().iter().map(|x| x.as_u64().unwrap() as usize).collect();
    let contents: Vec<Vec<u8>> = (0..n).map(|i| (0..sizes[i]).map(|k| (65 + i * 7 + k) as u8).collect()).collect();
    let stripped = c["format"] == "stripped";
    let sv = |xs: Vec<&[u8]>| Value::Array(xs.iter().map(|x| json!(x)).collect());
    let base: Vec<Vec<u8>> = names.iter().map(|s| s.as_bytes().to_vec()).collect();
    let digests: Vec<String> = contents.iter().map(|d| hex(&Sha256::digest(d))).collect();
    let mut h: Vec<(u32, u32, Value)> = vec![
        (1000, T_STRING, json!(["foreign".as_bytes()])), (1001, T_STRING, json!(["1".as_bytes()])), (1002, T_STRING, json!(["1".as_bytes()])),
        (1004, T_I18N, json!(["s".as_bytes()])), (1022, T_STRING, json!(["noarch".as_bytes()])),
        (1117, T_STRARR, sv(base.iter().map(|x| &x[..]).collect())),
        (1118, T_STRARR, json!(["/opt/".as_bytes()])),
        (1116, T_INT32, json!(vec![0; n])),
        (1030, T_INT16, json!(vec![0o100644; n])),
        (1039, T_STRARR, json!(vec!["root".as_bytes(); n])), (1040, T_STRARR, json!(vec!["root".as_bytes(); n])),
        (1035, T_STRARR, sv(digests.iter().map(|x| x.as_bytes()).collect())),
        (1034, T_INT32, json!(vec![1_600_000_000u32; n])),
        (1037, T_INT32, json!((0..n).map(|i| if c["order"].as_array().unwrap().iter().any(|o| o.as_u64() == Some(i as u64 + 1)) { 0 } else { 64 }).collect::<Vec<u32>>())),
        (1036, T_STRARR, json!(vec!["".as_bytes(); n])),
        (5011, T_INT32, json!([8])),
    ];
    if stripped {
        h.push((5008, T_INT64, json!(sizes)));
    } else {
        h.push((1028, T_INT32, json!(sizes)));
    }
    let hdr = encode_wellformed(63, &h);
    let mut archive = vec![];
    for o in c["order"].as_array().unwrap() {
        let i = o.as_u64().unwrap() as usize - 1;
        if stripped {
            archive.extend_from_slice(format!("07070X{:08x}", i).as_bytes());
            archive.extend_from_slice(&[0, 0]);
            archive.extend_from_slice(&contents[i]);
            while archive.len() % 4 != 0 { archive.push(0); }
        } else {
            archive.extend_from_slice(&newc_entry(&format!("./opt/{}", names[i]), 0o100644, &contents[i], i as u32 + 1));
        }
    }
    archive.extend_from_slice(&newc_entry("TRAILER!!!", 0, &[], 0));
    let sig = encode_wellformed(62, &[]);
    rawhdr::assemble(&lead_bytes("foreign"), &sig, &hdr, &archive, 0)
}

pub fn run(args: &Args) {
    let mut t = Tracer::create(args.req("out"));
    let mut rng = Rng::new(args.seed());
    let thorough = args.thorough();
    if let Some(cases) = args.get("cases") {
        for (i, line) in std::fs::read_to_string(cases).unwrap().lines().enumerate() {
            if line.trim().is_empty() { continue; }
            let c: Value = serde_json::from_str(line).unwrap();
            let bytes = encode_case(&c);
            let mut ev = files_event(&bytes, &format!("gen:{i}"), false, None);
            ev["case"] = c;
            t.emit(ev);
        }
    }
    for p in asset_paths() {
        let b = std::fs::read(&p).unwrap();
        t.emit(files_event(&b, &format!("asset:{}", p.rsplit('/').next().unwrap()), false, None));
    }
    let wd = gen_::Workdir::new("c07");
    // compression types x levels x file size families
    let mut combos: Vec<(String, Option<i64>)> = vec![("none".into(), None)];
    for l in if thorough { (0..=9).collect::<Vec<i64>>() } else { vec![0, 6, 9] } { combos.push(("gzip".into(), Some(l))); combos.push(("xz".into(), Some(l))); }
    for l in if thorough { (1..=22).collect::<Vec<i64>>() } else { vec![1, 9, 19, 22] } { combos.push(("zstd".into(), Some(l))); }
    for l in if thorough { (1..=9).collect::<Vec<i64>>() } else { vec![1, 5, 9] } { combos.push(("bzip2".into(), Some(l))); }
    combos.push(("gzip".into(), None));
    let size_sets: Vec<Vec<usize>> = vec![
        vec![0, 1, 2, 3], vec![4, 5, 6, 7, 8], vec![4095, 4096, 4097], vec![65536, 0, 13],
        if thorough { vec![1 << 20, 3 << 20, (1 << 21) + 1] } else { vec![300_000, 1 << 20] },
    ];
    let mut k = 0u64;
    for (ct, lvl) in &combos {
        for (si, sizes) in size_sets.iter().enumerate() {
            if !thorough && (k % 3 != 0) && si < 4 { k += 1; continue; }
            k += 1;
            let mut cfg = gen_::rand_cfg(&mut rng, 0, 0);
            cfg.compression = Some((ct.clone(), *lvl));
            cfg.files.clear();
            let mut used = vec![];
            for (j, &len) in sizes.iter().enumerate() {
                let mut f = gen_::rand_file(&mut rng, &mut used, 10);
                f.len = len;
                f.compressible = (j + si) % 2 == 0;
                f.mode = Some(0o100644);
                f.link = None;
                if si == 3 && j == 2 {
                    f.dest = format!("/opt/{}", "n".repeat(3000));
                }
                cfg.files.push(f);
            }
            let mut paths: Vec<Vec<u8>> = cfg.files.iter().map(|f| gen_::installed_path(&f.dest).into_bytes()).collect();
            paths.sort();
            match guarded(|| gen_::build(&cfg, &wd)) {
                Ok(Ok(p)) => {
                    let mut bytes = vec![];
                    p.write(&mut Plain(&mut bytes)).unwrap();
                    t.emit(files_event(&bytes, &format!("built:{ct}:{lvl:?}:{si}"), true, Some(paths)));
                }
                Ok(Err(e)) => { t.emit(json!({"event":"BuildErr","origin":format!("built:{ct}:{lvl:?}:{si}"),"err":err_name(&e)})); }
                Err(m) => { t.emit(json!({"event":"Panic","origin":format!("built:{ct}:{lvl:?}:{si}"),"msg":m})); }
            }
        }
    }
    // an entry header that straddles a 128 KiB mark of the decompressed stream (where block decoders hand out short
    // reads), for every codec; and archive names up to the longest the format allows (4095 bytes + NUL)
    {
        let mut special: Vec<(String, gen_::Cfg)> = vec![];
        let ks: Vec<usize> = if thorough { (1..=27).map(|x| 4 * x).collect() } else { vec![4, 52, 104, 108] };
        for ct in ["gzip", "zstd", "xz", "bzip2", "none"] {
            for &k in &ks {
                let mut cfg = gen_::rand_cfg(&mut rng, 0, 0);
                cfg.compression = Some((ct.into(), None));
                cfg.files.clear();
                let mut used = vec![];
                // "./b/first" + NUL = 10 bytes: data starts at 120, the next header at 120 + pad4(len)
                for (dest, len) in [("/b/first", 131072 - k - 120), ("/b/second", 10 + k % 7)] {
                    let mut f = gen_::rand_file(&mut rng, &mut used, 10);
                    f.dest = dest.into(); f.len = len; f.compressible = k % 8 == 0; f.mode = Some(0o100644); f.link = None;
                    cfg.files.push(f);
                }
                special.push((format!("boundary:{ct}:{k}"), cfg));
            }
        }
        for total in [4090usize, 4093, 4094, 4095] {
            let mut cfg = gen_::rand_cfg(&mut rng, 0, 0);
            cfg.files.clear();
            let mut used = vec![];
            let mut f = gen_::rand_file(&mut rng, &mut used, 40);
            // archive name "." + dest has `total` bytes
            let mut dest = String::new();
            while dest.len() + 201 < total - 1 { dest.push('/'); dest.push_str(&"d".repeat(200)); }
            dest.push('/');
            let rest = total - 1 - dest.len();
            dest.push_str(&"n".repeat(rest));
            f.dest = dest; f.mode = Some(0o100644); f.link = None;
            cfg.files.push(f);
            let mut g = gen_::rand_file(&mut rng, &mut used, 40);
            g.dest = "/zz/after".into(); g.mode = Some(0o100644); g.link = None;
            cfg.files.push(g);
            special.push((format!("longname:{total}"), cfg));
        }
        for (origin, cfg) in special {
            let mut paths: Vec<Vec<u8>> = cfg.files.iter().map(|f| gen_::installed_path(&f.dest).into_bytes()).collect();
            paths.sort();
            match guarded(|| gen_::build(&cfg, &wd)) {
                Ok(Ok(p)) => {
                    let mut bytes = vec![];
                    p.write(&mut Plain(&mut bytes)).unwrap();
                    t.emit(files_event(&bytes, &origin, true, Some(paths)));
                }
                Ok(Err(e)) => { t.emit(json!({"event":"BuildErr","origin":origin,"err":err_name(&e)})); }
                Err(m) => { t.emit(json!({"event":"Panic","origin":origin,"msg":m})); }
            }
        }
    }
    // random configurations (symlinks, directories, flags ...)
    for i in 0..args.num("n", 40) {
        let mut cfg = gen_::rand_cfg(&mut rng, 5, 5000);
        let mut paths: Vec<Vec<u8>> = cfg.files.iter().map(|f| gen_::installed_path(&f.dest).into_bytes()).collect();
        paths.sort();
        // every fourth configuration hands one destination over twice, from two different sources: whichever the builder
        // keeps (or if it refuses), what it records for the file is true of the content it archives (no claim on the
        // sequence of files then)
        let mut twice = false;
        if i % 4 == 3 {
            if let Some(k) = cfg.files.iter().position(|f| f.mode.map_or(true, |m| m & 0o170000 == 0o100000) && f.src_slot.is_none()) {
                let mut again = cfg.files[k].clone();
                again.seed = rng.next();
                again.len = cfg.files[k].len + 1 + rng.below(40) as usize;
                again.mtime = 1_234_567_890;
                cfg.files.push(again);
                twice = true;
            }
        }
        if let Ok(Ok(p)) = guarded(|| gen_::build(&cfg, &wd)) {
            let mut bytes = vec![];
            p.write(&mut Plain(&mut bytes)).unwrap();
            t.emit(files_event(&bytes, &format!("random:{i}{}", if twice { ":twice" } else { "" }), true, if twice { None } else { Some(paths) }));
        }
    }
    // the large-file (stripped cpio) format, reached through the verification hook
    #[cfg(rpm_verif)]
    {
        for (i, thr) in [0u64, 1, 10, 100].iter().enumerate() {
            rpm::verif::set_large_file_threshold(*thr);
            for j in 0..args.num("stripped", 6) {
                let mut cfg = gen_::rand_cfg(&mut rng, 4, 600);
                if j == 1 {
                    // many files: stripped entries carry the file index as 8 hex digits
                    let mut used: Vec<String> = cfg.files.iter().map(|f| gen_::installed_path(&f.dest)).collect();
                    for _ in 0..(12 + 7 * i) {
                        let mut f = gen_::rand_file(&mut rng, &mut used, 40);
                        f.mode = Some(0o100644);
                        f.link = None;
                        cfg.files.push(f);
                    }
                }
                if cfg.files.is_empty() {
                    let mut used = vec![];
                    cfg.files.push(gen_::rand_file(&mut rng, &mut used, 50));
                }
                let mut paths: Vec<Vec<u8>> = cfg.files.iter().map(|f| gen_::installed_path(&f.dest).into_bytes()).collect();
                paths.sort();
                match guarded(|| gen_::build(&cfg, &wd)) {
                    Ok(Ok(p)) => {
                        let mut bytes = vec![];
                        p.write(&mut Plain(&mut bytes)).unwrap();
                        t.emit(files_event(&bytes, &format!("largefile:{i}:{j}"), true, Some(paths)));
                    }
                    Ok(Err(e)) => { t.emit(json!({"event":"BuildErr","origin":format!("largefile:{i}:{j}"),"err":err_name(&e)})); }
                    Err(m) => { t.emit(json!({"event":"Panic","origin":format!("largefile:{i}:{j}"),"msg":m})); }
                }
            }
        }
        rpm::verif::set_large_file_threshold(u32::MAX as u64);
    }
    t.flush();
}
