//! C19: capability text. The complete bounded domain over the 13-token alphabet of the property's
//! quantifier goes through FileCaps::from_str, FileCaps::new, FileOptions::caps and validate_caps_text in blocks of
//! 256 canonical indices, plus seeded longer strings over all 41 names.
use crate::util::*;
use rpm::{FileCaps, FileOptions};
use serde_json::json;
use std::str::FromStr;

const TOK: [&str; 13] = ["cap_chown", "CAP_KILL", "all", "cap_bogus", ",", "=", "+", "-", "e", "i", "p", "x", " "];
const CAPS: [&str; 41] = [
    "cap_chown", "cap_dac_override", "cap_dac_read_search", "cap_fowner", "cap_fsetid", "cap_kill", "cap_setgid",
    "cap_setuid", "cap_setpcap", "cap_linux_immutable", "cap_net_bind_service", "cap_net_broadcast", "cap_net_admin",
    "cap_net_raw", "cap_ipc_lock", "cap_ipc_owner", "cap_sys_module", "cap_sys_rawio", "cap_sys_chroot",
    "cap_sys_ptrace", "cap_sys_pacct", "cap_sys_admin", "cap_sys_boot", "cap_sys_nice", "cap_sys_resource",
    "cap_sys_time", "cap_sys_tty_config", "cap_mknod", "cap_lease", "cap_audit_write", "cap_audit_control",
    "cap_setfcap", "cap_mac_override", "cap_mac_admin", "cap_syslog", "cap_wake_alarm", "cap_block_suspend",
    "cap_audit_read", "cap_perfmon", "cap_bpf", "cap_checkpoint_restore",
];

/// 1 = accepted everywhere and kept verbatim, 0 = rejected everywhere with an error, 2 = anything else
pub fn observe(text: &str) -> i32 {
    let r = guarded(|| {
        let a = FileCaps::from_str(text);
        let b = FileCaps::new(text.to_string());
        let c = FileOptions::new("/f").caps(text);
        let d = rpm::validate_caps_text(text);
        match (a, b, c, d) {
            (Ok(a), Ok(b), Ok(_), Ok(())) => {
                if a.to_string() == text && b.to_string() == text { 1 } else { 2 }
            }
            (Err(_), Err(_), Err(_), Err(_)) => 0,
            _ => 2,
        }
    });
    r.unwrap_or(2)
}

pub fn run(args: &Args) {
    let mut t = Tracer::create(args.req("out"));
    let mut rng = Rng::new(args.seed());
    let maxtok = args.num("maxtok", 4) as usize;
    let idx: Vec<u32> = (1..=13).collect();
    let n = dom_size(13, maxtok);
    let mut start = 0usize;
    while start < n {
        let cnt = (n - start).min(256);
        let mut acc = Vec::with_capacity(cnt);
        for i in start..start + cnt {
            let text: String = nth_str(&idx, i).iter().map(|&k| TOK[(k - 1) as usize]).collect();
            acc.push(observe(&text));
        }
        t.emit(json!({"event":"CapsBlock","start":start,"acc":acc}));
        start += cnt;
    }
    // seeded longer strings over the full name list, mixed case, tabs/newlines, stray characters
    let nrand = args.num("random", 20000);
    for _ in 0..nrand {
        let mut s = String::new();
        if rng.chance(1, 10) { s.push(' '); }
        let clauses = 1 + rng.below(3);
        for ci in 0..clauses {
            if ci > 0 { s.push_str(*rng.pick(&[" ", "  ", "\t", "\n"])); }
            match rng.below(12) {
                0 => {}
                1 => s.push_str(*rng.pick(&["all", "ALL", "All"])),
                _ => {
                    let k = 1 + rng.below(3);
                    for j in 0..k {
                        if j > 0 { s.push(','); }
                        let name = *rng.pick(&CAPS);
                        match rng.below(8) {
                            0 => s.push_str(&name.to_uppercase()),
                            1 => s.push_str(&name[..name.len() - 1]),
                            2 => { s.push_str(name); s.push('x'); }
                            3 => s.push_str("all"),
                            4 if rng.chance(1, 4) => {}
                            _ => s.push_str(name),
                        }
                    }
                }
            }
            let groups = rng.below(4);
            for _ in 0..groups {
                if !rng.chance(1, 12) { s.push(*rng.pick(&['=', '+', '-'])); }
                if rng.chance(1, 15) { s.push(*rng.pick(&['=', '+', '-'])); }
                let f = rng.below(4);
                for _ in 0..f {
                    s.push(*rng.pick(&['e', 'i', 'p', 'e', 'i', 'p', 'e', 'i', 'p', 'x', 'E', ',']));
                }
            }
        }
        if rng.chance(1, 10) { s.push(' '); }
        // characters that are not ASCII: look-alikes that Unicode case mapping turns into ASCII letters (long s, dotless i,
        // Kelvin sign) and accented letters - inside names and next to operators (other Unicode white space is left out: the
        // statement does not say whether it separates clauses)
        if rng.chance(1, 6) && !s.is_empty() {
            let cs: Vec<char> = s.chars().collect();
            let at = rng.below(cs.len() as u64) as usize;
            let repl = match cs[at] {
                's' | 'S' => 'ſ', 'i' | 'I' => 'ı', 'k' | 'K' => '\u{212A}',
                _ => *rng.pick(&['é', 'ü', '日']),
            };
            let mut out: String = cs[..at].iter().collect();
            out.push(repl);
            if !rng.chance(1, 3) { out.extend(cs[at + 1..].iter()); } else { out.extend(cs[at..].iter()); }
            s = out;
        }
        t.emit(json!({"event":"Caps","text":codes(&s),"acc":observe(&s)}));
    }
    t.flush();
}
