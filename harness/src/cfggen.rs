//! Builder-configuration generator shared by the package-producing scenarios (C06 C07 C08 C09 C11
//! C01 C16 C10): an abstract configuration `Cfg` (what the specification sees), its realisation
//! through the real PackageBuilder, and the signing keys of the repository.
use crate::util::*;
use rpm::signature::pgp::{Signer, Verifier};
use rpm::{CompressionWithLevel, Dependency, DependencyFlags, FileMode, FileOptions, Package, PackageBuilder, Scriptlet, ScriptletFlags};
use serde_json::{Value, json};
use std::path::{Path, PathBuf};

pub const KEYS: [&str; 4] = ["rsa4096", "rsa3072p", "ed25519", "ecdsa"];
/// the keys of the sign histories: the four above plus the signing SUBKEY of the test_assets certificate (verified with
/// the certificate that owns it)
pub const KEYS5: [&str; 5] = ["rsa4096", "rsa3072p", "ed25519", "ecdsa", "assetsub"];

pub fn key_files(name: &str) -> (PathBuf, PathBuf, Option<&'static str>) {
    let d = Path::new("/repo/tests/assets/signing_keys");
    match name {
        "rsa4096" => (d.join("secret_rsa4096.asc"), d.join("public_rsa4096.asc"), None),
        "rsa3072p" => (d.join("secret_rsa3072_protected.asc"), d.join("public_rsa3072_protected.asc"), Some("thisisN0Tasecuredpassphrase")),
        "ed25519" => (d.join("secret_ed25519.asc"), d.join("public_ed25519.asc"), None),
        "ecdsa" => (d.join("secret_ecdsa_p256.asc"), d.join("public_ecdsa_p256.asc"), None),
        "asset" | "assetsub" => (PathBuf::from("/repo/test_assets/secret_key.asc"), PathBuf::from("/repo/test_assets/public_key.asc"), None),
        _ => panic!("unknown key {name}"),
    }
}

pub fn signer(name: &str) -> Signer {
    let (sec, _, pass) = key_files(name);
    let s = Signer::load_from_asc_bytes(&std::fs::read(sec).expect("read secret key")).expect("load signer");
    match pass {
        Some(p) => s.with_key_passphrase(p),
        None => s,
    }
}

/// sign `p` with the named key ("assetsub": with the first secret subkey of the test_assets key)
pub fn sign_pkg(p: &mut Package, key: &str, t: u32) -> Result<(), rpm::Error> {
    if key == "assetsub" {
        use pgp::Deserializable;
        let (sec, _, _) = key_files(key);
        let text = std::fs::read_to_string(sec).expect("read secret key");
        let (sk, _) = pgp::SignedSecretKey::from_string(&text).expect("parse secret key");
        let sub = sk.secret_subkeys[0].clone();
        p.sign_with_timestamp(Signer::new(sub)?, t)
    } else {
        p.sign_with_timestamp(signer(key), t)
    }
}

pub fn verifier(name: &str) -> Verifier {
    let (_, pubk, _) = key_files(name);
    Verifier::load_from_asc_bytes(&std::fs::read(pubk).expect("read public key")).expect("load verifier")
}

#[derive(Clone, Debug)]
pub struct FileCfg {
    pub dest: String,
    pub len: usize,
    pub compressible: bool,
    pub seed: u64,
    pub mode: Option<u16>, // explicit raw mode; None = inherit from the source file (0o100644 / 0o100755)
    pub src_exec: bool,
    /// setuid / setgid / sticky bits on the source file (inherited when no mode is given)
    pub src_special: u32,
    /// the mode handed over as an i32 outside the 16-bit range (the builder accepts it; header and archive record its
    /// low 16 bits)
    pub mode_wide: Option<i32>,
    /// write this file's source under the path of another file's source (slot): the same path handed to the builder
    /// twice, rewritten in between
    pub src_slot: Option<usize>,
    pub user: Option<String>,
    pub group: Option<String>,
    pub flags: Vec<&'static str>,
    pub caps: Option<String>,
    /// verify flags (None: the builder's default, everything)
    pub verify: Option<u32>,
    pub link: Option<String>,
    pub mtime: u32,
}

#[derive(Clone, Debug, Default)]
pub struct ScriptCfg {
    pub script: String,
    pub flags: Option<u32>,
    pub prog: Option<Vec<String>>,
}

#[derive(Clone, Debug)]
pub struct DepCfg {
    pub name: String,
    pub flags: u32,
    pub version: String,
}

#[derive(Clone, Debug, Default)]
pub struct Cfg {
    pub name: String,
    pub version: String,
    pub license: String,
    pub arch: String,
    pub summary: String,
    pub release: Option<String>,
    pub epoch: Option<u32>,
    pub description: Option<String>,
    pub vendor: Option<String>,
    pub packager: Option<String>,
    pub group: Option<String>,
    pub url: Option<String>,
    pub vcs: Option<String>,
    pub cookie: Option<String>,
    pub build_host: Option<String>,
    pub scripts: Vec<(usize, ScriptCfg)>, // index into SCRIPT_KINDS
    pub deps: Vec<(usize, DepCfg)>,       // index into DEP_KINDS, in call order
    pub changelog: Vec<(String, String, u32)>,
    pub files: Vec<FileCfg>,
    pub compression: Option<(String, Option<i64>)>,
    pub source_date: Option<u32>,
    pub signer: Option<String>,
    /// call .source_date() after the files have been added (builder calls commute)
    pub late_source_date: bool,
    /// pass the source date as a chrono DateTime at this UTC offset (seconds east) instead of as an integer:
    /// another spelling of the same instant
    pub source_date_offset: Option<i32>,
    /// per changelog entry: hand the time over as a chrono DateTime at this UTC offset (same instant)
    pub changelog_offsets: Vec<Option<i32>>,
}

fn with_source_date(b: PackageBuilder, sd: u32, off: Option<i32>) -> PackageBuilder {
    match off {
        None => b.source_date(sd),
        // (i32::MAX stands for: as a SystemTime three quarters of a second into that second)
        Some(i32::MAX) => b.source_date(std::time::UNIX_EPOCH + std::time::Duration::new(sd as u64, 750_000_000)),
        Some(o) => {
            let dt = chrono::DateTime::from_timestamp(sd as i64, 0).expect("in range")
                .with_timezone(&chrono::FixedOffset::east_opt(o).expect("offset"));
            b.source_date(dt)
        }
    }
}

pub const SCRIPT_KINDS: [&str; 9] = ["pre_install", "post_install", "pre_uninstall", "post_uninstall", "pre_trans", "post_trans", "pre_untrans", "post_untrans", "verify"];
pub const DEP_KINDS: [&str; 8] = ["provides", "requires", "conflicts", "obsoletes", "recommends", "suggests", "enhances", "supplements"];

pub fn content(len: usize, compressible: bool, seed: u64) -> Vec<u8> {
    if compressible {
        let pat = format!("line {seed} of a very compressible file\n");
        pat.as_bytes().iter().cycle().take(len).copied().collect()
    } else {
        Rng::new(seed ^ 0xC0FFEE).bytes(len)
    }
}

pub fn compression_of(c: &Option<(String, Option<i64>)>) -> Option<CompressionWithLevel> {
    let (t, l) = c.as_ref()?;
    Some(match (t.as_str(), l) {
        ("none", _) => CompressionWithLevel::None,
        ("gzip", Some(l)) => CompressionWithLevel::Gzip(*l as u32),
        ("gzip", None) => rpm::CompressionType::Gzip.into(),
        ("zstd", Some(l)) => CompressionWithLevel::Zstd(*l as i32),
        ("zstd", None) => rpm::CompressionType::Zstd.into(),
        ("xz", Some(l)) => CompressionWithLevel::Xz(*l as u32),
        ("xz", None) => rpm::CompressionType::Xz.into(),
        ("bzip2", Some(l)) => CompressionWithLevel::Bzip2(*l as u32),
        ("bzip2", None) => rpm::CompressionType::Bzip2.into(),
        _ => panic!("bad compression"),
    })
}

/// Source files live in a scratch directory; mtime and permissions are set on them because the
/// builder reads both from the source file.
pub struct Workdir {
    pub dir: PathBuf,
}
impl Workdir {
    pub fn new(tag: &str) -> Workdir {
        let dir = std::env::temp_dir().join(format!("rpm_verif_{}_{}", tag, std::process::id()));
        let _ = std::fs::remove_dir_all(&dir);
        std::fs::create_dir_all(&dir).unwrap();
        Workdir { dir }
    }
    pub fn source(&self, idx: usize, f: &FileCfg) -> PathBuf {
        use std::os::unix::fs::PermissionsExt;
        let p = self.dir.join(format!("src_{}", f.src_slot.unwrap_or(idx)));
        std::fs::write(&p, content(f.len, f.compressible, f.seed)).unwrap();
        std::fs::set_permissions(&p, std::fs::Permissions::from_mode(src_perm(f))).unwrap();
        let fh = std::fs::File::options().write(true).open(&p).unwrap();
        fh.set_modified(std::time::UNIX_EPOCH + std::time::Duration::from_secs(f.mtime as u64)).unwrap();
        // now and then the path handed to the builder is a symbolic link to the source (a file picked out of a
        // build tree full of links): content, permission bits and modification time are those of the file it names
        if f.seed % 5 == 0 && f.src_slot.is_none() {
            let l = self.dir.join(format!("link_{idx}"));
            let _ = std::fs::remove_file(&l);
            if std::os::unix::fs::symlink(&p, &l).is_ok() {
                return l;
            }
        }
        p
    }
}
impl Drop for Workdir {
    fn drop(&mut self) {
        let _ = std::fs::remove_dir_all(&self.dir);
    }
}

/// permission bits of the source file
pub fn src_perm(f: &FileCfg) -> u32 {
    (if f.src_exec { 0o755 } else { 0o644 }) | f.src_special
}
/// the mode that must be read back for the file
pub fn expected_mode(f: &FileCfg) -> u32 {
    // (an explicit 16-bit mode, when a scenario sets one, takes precedence over the wide integer)
    match (f.mode, f.mode_wide) {
        (Some(m), _) => m as u32,
        (None, Some(w)) => (w as u32) & 0xFFFF,
        (None, None) => 0o100000 | src_perm(f),
    }
}

pub fn file_options(f: &FileCfg) -> Result<FileOptions, rpm::Error> {
    let mut o = FileOptions::new(f.dest.clone());
    if let Some(m) = f.mode {
        o = o.mode(FileMode::from(m));
    } else if let Some(w) = f.mode_wide {
        o = o.mode(w);
    }
    if let Some(u) = &f.user {
        o = o.user(u.clone());
    }
    if let Some(g) = &f.group {
        o = o.group(g.clone());
    }
    if let Some(l) = &f.link {
        o = o.symlink(l.clone());
    }
    for fl in &f.flags {
        o = match *fl {
            "doc" => o.is_doc(),
            "config" => o.is_config(),
            "config_noreplace" => o.is_config_noreplace(),
            "ghost" => o.is_ghost(),
            "license" => o.is_license(),
            "readme" => o.is_readme(),
            _ => o,
        };
    }
    if let Some(c) = &f.caps {
        o = o.caps(c.clone())?;
    }
    if let Some(v) = f.verify {
        o = o.verify(rpm::FileVerifyFlags::from_bits_retain(v));
    }
    Ok(o.into())
}

fn scriptlet(s: &ScriptCfg) -> Scriptlet {
    // the fields are public: every other scriptlet is filled in directly instead of through the setters
    if s.script.len() % 2 == 0 {
        return Scriptlet { script: s.script.clone(), flags: s.flags.map(ScriptletFlags::from_bits_retain), program: s.prog.clone() };
    }
    let mut sc = Scriptlet::new(s.script.clone());
    if let Some(f) = s.flags {
        sc = sc.flags(ScriptletFlags::from_bits_retain(f));
    }
    if let Some(p) = &s.prog {
        sc = sc.prog(p.clone());
    }
    sc
}

pub fn builder(cfg: &Cfg, wd: &Workdir) -> Result<PackageBuilder, rpm::Error> {
    let mut b = PackageBuilder::new(&cfg.name, &cfg.version, &cfg.license, &cfg.arch, &cfg.summary);
    if let Some(x) = &cfg.release { b = b.release(x.clone()); }
    if let Some(x) = cfg.epoch { b = b.epoch(x); }
    if let Some(x) = &cfg.description { b = b.description(x.clone()); }
    if let Some(x) = &cfg.vendor { b = b.vendor(x.clone()); }
    if let Some(x) = &cfg.packager { b = b.packager(x.clone()); }
    if let Some(x) = &cfg.group { b = b.group(x.clone()); }
    if let Some(x) = &cfg.url { b = b.url(x.clone()); }
    if let Some(x) = &cfg.vcs { b = b.vcs(x.clone()); }
    if let Some(x) = &cfg.cookie { b = b.cookie(x); }
    if let Some(x) = &cfg.build_host { b = b.build_host(x); }
    if let Some(c) = compression_of(&cfg.compression) { b = b.compression(c); }
    if let (Some(sd), false) = (cfg.source_date, cfg.late_source_date) { b = with_source_date(b, sd, cfg.source_date_offset); }
    for (k, s) in &cfg.scripts {
        let sc = scriptlet(s);
        b = match *k {
            0 => b.pre_install_script(sc),
            1 => b.post_install_script(sc),
            2 => b.pre_uninstall_script(sc),
            3 => b.post_uninstall_script(sc),
            4 => b.pre_trans_script(sc),
            5 => b.post_trans_script(sc),
            6 => b.pre_untrans_script(sc),
            7 => b.post_untrans_script(sc),
            _ => b.verify_script(sc),
        };
    }
    for (k, d) in &cfg.deps {
        let dep = Dependency { name: d.name.clone(), flags: DependencyFlags::from_bits_retain(d.flags), version: d.version.clone() };
        b = match *k {
            0 => b.provides(dep),
            1 => b.requires(dep),
            2 => b.conflicts(dep),
            3 => b.obsoletes(dep),
            4 => b.recommends(dep),
            5 => b.suggests(dep),
            6 => b.enhances(dep),
            _ => b.supplements(dep),
        };
    }
    for (i, (n, t, ts)) in cfg.changelog.iter().enumerate() {
        b = match cfg.changelog_offsets.get(i).copied().flatten() {
            None => b.add_changelog_entry(n, t, *ts),
            Some(o) => {
                let dt = chrono::DateTime::from_timestamp(*ts as i64, 0).expect("in range")
                    .with_timezone(&chrono::FixedOffset::east_opt(o).expect("offset"));
                b.add_changelog_entry(n, t, dt)
            }
        };
    }
    for (i, f) in cfg.files.iter().enumerate() {
        let src = wd.source(i, f);
        b = b.with_file(&src, file_options(f)?)?;
    }
    if let (Some(sd), true) = (cfg.source_date, cfg.late_source_date) { b = with_source_date(b, sd, cfg.source_date_offset); }
    Ok(b)
}

pub fn build(cfg: &Cfg, wd: &Workdir) -> Result<Package, rpm::Error> {
    let b = builder(cfg, wd)?;
    match &cfg.signer {
        Some(k) => b.build_and_sign(signer(k)),
        None => b.build(),
    }
}

// ------------------------------------------------------------------ random configurations

const STR_POOL: [&str; 10] = ["", "x", "two words", "multi\nline\ntext", "é日本語 ünï", "tab\tsep", " lead", "trail ", "%{macro} $x `y`", "a-b.c_d+e~f^g"];

pub fn rand_str(rng: &mut Rng) -> String {
    if rng.chance(1, 25) {
        "long ".repeat(60 + rng.below(10) as usize)
    } else {
        rng.pick(&STR_POOL).to_string()
    }
}

fn opt_str(rng: &mut Rng) -> Option<String> {
    if rng.chance(1, 2) { Some(rand_str(rng)) } else { None }
}

/// the installed path a destination names: leading "." dropped, repeated slashes and "." components collapsed, no
/// trailing slash (the harness's own statement of it; the specification has Builder!NormalPath)
pub fn installed_path(dest: &str) -> String {
    let d = dest.strip_prefix('.').unwrap_or(dest);
    let comps: Vec<&str> = d.split('/').filter(|c| !c.is_empty() && *c != ".").collect();
    format!("/{}", comps.join("/"))
}

/// another spelling of the same destination: a repeated slash or a "." component in front of the file name, a trailing
/// slash or "/." (spellings deeper inside the directory part are kept as they are by the builder and only name the
/// same place; they are left alone here so that "the path" stays one string)
pub fn respell(rng: &mut Rng, dest: &str) -> String {
    let (lead, rest) = if let Some(r) = dest.strip_prefix('.') { (".", r) } else { ("", dest) };
    let comps: Vec<&str> = rest.split('/').filter(|c| !c.is_empty()).collect();
    if comps.is_empty() { return dest.to_string(); }
    let mut out = String::from(lead);
    let at = comps.len() - 1;
    let kind = rng.below(4);
    for (i, c) in comps.iter().enumerate() {
        out.push('/');
        if i == at && kind == 0 { out.push('/'); }
        if i == at && kind == 1 { out.push_str("./"); }
        out.push_str(c);
    }
    if kind == 2 { out.push('/'); }
    if kind == 3 { out.push_str("/."); }
    out
}

pub fn rand_dest(rng: &mut Rng, used: &mut Vec<String>) -> String {
    loop {
        let depth = rng.below(4);
        let mut p = String::new();
        for _ in 0..depth {
            p.push('/');
            p.push_str(*rng.pick(&["usr", "etc", "opt", "a", "b.d", "share", "lib64", "x-y", "app-1.", "v2..d", ".cfg"]));
        }
        p.push('/');
        p.push_str(*rng.pick(&["f", "g.txt", "README", "bin", "conf.d", "é", "a b", "z", "dot.", "..x"]));
        p.push_str(&rng.below(50).to_string());
        let d = if rng.chance(1, 3) { format!(".{p}") } else { p.clone() };
        // a destination may not be a prefix directory of another one, nor a duplicate
        if !used.iter().any(|u| u == &p || u.starts_with(&format!("{p}/")) || p.starts_with(&format!("{u}/"))) {
            used.push(p);
            return d;
        }
    }
}

/// files with the names real packages are made of (byte-code next to its source, a shared object and its debug
/// file, compressed manual pages, desktop and unit files, licence and readme texts): code that special-cases a name
/// has something to special-case
pub fn realistic_files(rng: &mut Rng, used: &mut Vec<String>, which: Option<usize>) -> Vec<FileCfg> {
    let sets: [&[&str]; 5] = [
        &["/usr/lib/python3.11/site-packages/mod/__init__.py", "/usr/lib/python3.11/site-packages/mod/__pycache__/__init__.cpython-311.pyc",
          "/usr/lib/python3.11/site-packages/mod/util.py", "/usr/lib/python3.11/site-packages/mod/__pycache__/util.cpython-311.opt-1.pyc"],
        &["/usr/lib64/libverif.so.1.2.3", "/usr/lib/debug/usr/lib64/libverif.so.1.2.3.debug", "/usr/lib/.build-id/ab/cdef0123456789", "/usr/lib64/libverif.a", "/usr/lib64/libverif.la"],
        &["/usr/share/man/man1/verif.1.gz", "/usr/share/man/man5/verif.conf.5.bz2", "/usr/share/info/verif.info.gz", "/usr/share/doc/verif/README.md", "/usr/share/licenses/verif/LICENSE"],
        &["/usr/share/applications/verif.desktop", "/usr/lib/systemd/system/verif.service", "/etc/verif/verif.conf", "/etc/verif/verif.conf.rpmnew", "/usr/share/java/verif.jar"],
        &["/usr/bin/verif", "/usr/bin/verif.sh", "/usr/share/verif/data.tar.gz", "/usr/share/verif/image.png", "/usr/share/verif/.hidden", "/usr/share/verif/core"],
    ];
    let set = sets[which.unwrap_or_else(|| rng.below(sets.len() as u64) as usize) % sets.len()];
    let mut out = vec![];
    for name in set {
        if used.iter().any(|u| u == name || u.starts_with(&format!("{name}/")) || name.starts_with(&format!("{u}/"))) { continue; }
        used.push(name.to_string());
        let mut f = rand_file(rng, used, 300);
        f.dest = name.to_string();
        f.mode = Some(0o100644);
        f.mode_wide = None;
        f.link = None;
        out.push(f);
    }
    out
}

pub fn rand_file(rng: &mut Rng, used: &mut Vec<String>, max_len: usize) -> FileCfg {
    let len = match rng.below(8) {
        // (sizes around the buffer sizes I/O code likes: 8 KiB, 64 KiB, 128 KiB)
        0 if max_len >= 3000 && rng.chance(1, 6) => *rng.pick(&[8191usize, 8192, 8193, 65535, 65536, 65537, 131071, 131072, 131073]),
        0 => 0,
        1 => 1 + rng.below(8) as usize,
        2 => 4095 + rng.below(3) as usize,
        3 => rng.below(max_len as u64 + 1) as usize,
        _ => rng.below(300) as usize,
    };
    let kind = rng.below(10);
    let (mode, link) = match kind {
        // a link target next to a mode that is not a link mode (inherited, or explicitly regular) is metadata like any other
        5 if rng.chance(1, 3) => (None, Some(rng.pick(&["target", "../x", "/abs/t"]).to_string())),
        6 if rng.chance(1, 3) => (Some(0o100644), Some("elsewhere".to_string())),
        0 => (Some(0o120777), Some(rng.pick(&["target", "../x", "/abs/t"]).to_string())),
        1 => (Some(0o040000 | *rng.pick(&[0o755u16, 0o700, 0o1777, 0o2755])), None),
        2 | 3 | 4 => (Some(0o100000 | *rng.pick(&[0o644u16, 0o600, 0o755, 0o4755, 0o7777, 0o000, 0o444, 0o664, 0o666, 0o775, 0o777])), None),
        _ => (None, None),
    };
    let mut flags = vec![];
    for f in ["doc", "config", "config_noreplace", "ghost", "license", "readme"] {
        if rng.chance(1, 8) {
            flags.push(f);
        }
    }
    FileCfg {
        dest: { let d = rand_dest(rng, used); if rng.chance(1, 8) { respell(rng, &d) } else { d } },
        // (symlink and directory entries usually come from empty placeholders, but the builder archives whatever the
        // source holds)
        len: if kind <= 1 && !rng.chance(1, 4) { 0 } else { len },
        compressible: rng.chance(1, 2),
        seed: rng.next(),
        mode,
        src_exec: rng.chance(1, 3),
        src_special: if rng.chance(1, 6) { *rng.pick(&[0o4000u32, 0o2000, 0o1000, 0o6000]) } else { 0 },
        src_slot: None,
        mode_wide: if kind >= 7 && rng.chance(1, 12) { Some(*rng.pick(&[0o1100644i32, 0o200000 | 0o100600, 65536 + 0o100755])) } else { None },
        user: if rng.chance(1, 3) { Some(rng.pick(&["alice", "bob", "carol", "dave", "root", "eve"]).to_string()) } else { None },
        group: if rng.chance(1, 3) { Some(rng.pick(&["staff", "wheel", "adm", "root", "users"]).to_string()) } else { None },
        flags,
        caps: if rng.chance(1, 6) { Some(rng.pick(&["cap_net_admin=ep", "cap_chown,cap_kill+p", "=e", "all=i cap_bpf-e", "cap_net_raw,cap_net_admin=ep\n", "  =e cap_chown-e ", "CAP_Kill=p"]).to_string()) } else { None },
        link,
        // (what `rpm -V` is to check is the packager's business; what the package records about the file is not)
        verify: if rng.chance(1, 6) { Some(*rng.pick(&[0u32, 0xFFFF_FFFE, 0x0000_00F2, 0x0000_0001, 0x0000_01FF])) } else { None },
        mtime: *rng.pick(&[0u32, 1, 1_000_000_000, 1_599_999_999, 1_600_000_000, 1_600_000_001, 1_700_000_000, 2_000_000_000, 2_147_483_647, 2_147_483_648, 4_000_000_000]),
    }
}

pub fn rand_cfg(rng: &mut Rng, max_files: u64, max_len: usize) -> Cfg {
    let mut cfg = Cfg {
        // (now and then a name longer than the lead's 65-byte name field, also with a multi-byte character at the cut)
        name: if rng.chance(1, 12) { match rng.below(5) { 0 => "n".repeat(64), 1 => "n".repeat(65), 2 => "n".repeat(66), 3 => "long-name.".repeat(9), _ => format!("{}x", "é".repeat(33)) } }
              else { rng.pick(&["pkg", "a-b", "lib.x", "n1"]).to_string() },
        version: rng.pick(&["1.0", "0", "2.3.4~rc1", "1^git"]).to_string(),
        license: rng.pick(&["MIT", "Apache-2.0 OR MIT", ""]).to_string(),
        arch: rng.pick(&["x86_64", "noarch", "aarch64"]).to_string(),
        summary: rand_str(rng),
        release: opt_str(rng).map(|s| if s.is_empty() { "1".into() } else { s }),
        epoch: if rng.chance(1, 2) { Some(*rng.pick(&[0u32, 1, 7, u32::MAX])) } else { None },
        description: opt_str(rng),
        vendor: opt_str(rng),
        packager: opt_str(rng),
        group: opt_str(rng),
        url: opt_str(rng),
        vcs: opt_str(rng),
        cookie: opt_str(rng),
        build_host: opt_str(rng),
        ..Default::default()
    };
    for k in 0..9 {
        if rng.chance(1, 4) {
            cfg.scripts.push((k, ScriptCfg {
                script: rand_str(rng),
                flags: if rng.chance(1, 2) { Some(*rng.pick(&[0u32, 1, 2, 3, 5])) } else { None },
                prog: match rng.below(4) {
                    0 => Some(vec!["/bin/sh".into()]),
                    1 => Some(vec!["/usr/bin/lua".into(), "-e".into(), rand_str(rng)]),
                    2 if rng.chance(1, 3) => Some(vec![]),
                    _ => None,
                },
            }));
        }
    }
    let ndeps = rng.below(7);
    for _ in 0..ndeps {
        let k = rng.below(8) as usize;
        cfg.deps.push((k, DepCfg {
            name: format!("{}{}", rng.pick(&["dep", "lib(x)", "/bin/sh", "é"]), rng.below(4)),
            flags: *rng.pick(&[0u32, 8, 2 | 8, 4 | 8, 2, 4, 1 << 9, 1 << 24 | 8, 0xFFFF_FFFF]),
            version: rng.pick(&["", "1.0", "2:3.4-5", "~"]).to_string(),
        }));
    }
    if rng.chance(1, 3) {
        let k = rng.below(8) as usize;
        let name = format!("range{}", rng.below(3));
        cfg.deps.push((k, DepCfg { name: name.clone(), flags: 4 | 8, version: "1.2".into() }));
        cfg.deps.push((k, DepCfg { name, flags: 2, version: "2.0".into() }));
    }
    let ncl = rng.below(4);
    for i in 0..ncl {
        cfg.changelog.push((format!("Dev {} <d@e.f> - 0.{}", rand_str(rng), i), rand_str(rng), *rng.pick(&[0u32, 840_000_000, 1_681_411_811, u32::MAX])));
        cfg.changelog_offsets.push(*rng.pick(&[None, None, Some(0), Some(7200), Some(-28800), Some(19800)]));
    }
    let nfiles = rng.below(max_files + 1);
    let mut used = vec![];
    for _ in 0..nfiles {
        cfg.files.push(rand_file(rng, &mut used, max_len));
    }
    // names that differ only in a leading dot of the last component (hidden files), also directly below the root
    if !cfg.files.is_empty() && rng.chance(1, 2) {
        let k = rng.below(cfg.files.len() as u64) as usize;
        let path = installed_path(&cfg.files[k].dest);
        if let Some((dir, name)) = path.rsplit_once('/') {
            let twin = format!("{dir}/.{name}");
            if !used.contains(&twin) && cfg.files[k].mode.map_or(true, |m| m & 0o170000 != 0o040000) {
                used.push(twin.clone());
                let mut f = rand_file(rng, &mut used, max_len);
                f.dest = if rng.chance(1, 2) { format!(".{twin}") } else { twin };
                cfg.files.push(f);
            }
        }
    }
    // two files installed from one source path that is rewritten in between (same length, same mtime, other content)
    if !cfg.files.is_empty() && rng.chance(1, 4) {
        let k = rng.below(cfg.files.len() as u64) as usize;
        let mut twin = cfg.files[k].clone();
        twin.dest = rand_dest(rng, &mut used);
        twin.seed = rng.next();
        twin.src_slot = Some(cfg.files[k].src_slot.unwrap_or(k));
        cfg.files[k].src_slot = twin.src_slot;
        cfg.files.push(twin);
    }
    // names that differ only in the case of a letter
    if !cfg.files.is_empty() && rng.chance(1, 4) {
        let k = rng.below(cfg.files.len() as u64) as usize;
        let path = installed_path(&cfg.files[k].dest);
        if let Some(pos) = path.rfind(|c: char| c.is_ascii_lowercase()) {
            let mut twin = path.clone();
            let up = twin[pos..pos + 1].to_ascii_uppercase();
            twin.replace_range(pos..pos + 1, &up);
            if !used.iter().any(|u| u == &twin || u.starts_with(&format!("{twin}/")) || twin.starts_with(&format!("{u}/")))
                && cfg.files[k].mode.map_or(true, |m| m & 0o170000 != 0o040000) {
                used.push(twin.clone());
                let mut f = rand_file(rng, &mut used, max_len);
                f.dest = twin;
                cfg.files.push(f);
            }
        }
    }
    // a path that is a proper suffix of another one which sorts before it (/0pre/usr/f1 and /usr/f1)
    if !cfg.files.is_empty() && rng.chance(1, 3) {
        let k = rng.below(cfg.files.len() as u64) as usize;
        let path = installed_path(&cfg.files[k].dest);
        let twin = format!("/0pre{path}");
        if !used.contains(&twin) && cfg.files[k].mode.map_or(true, |m| m & 0o170000 != 0o040000) {
            used.push(twin.clone());
            let mut f = rand_file(rng, &mut used, max_len);
            f.dest = twin;
            cfg.files.push(f);
        }
    }
    if max_files > 0 && rng.chance(1, 6) {
        let fs = realistic_files(rng, &mut used, None);
        cfg.files.extend(fs);
    }
    // a packaged file that bears the name of the archive's end marker
    if max_files > 0 && rng.chance(1, 10) {
        for name in ["/TRAILER!!!", "/usr/TRAILER!!!"] {
            if rng.chance(2, 3) && !used.contains(&name.to_string()) {
                used.push(name.to_string());
                let mut f = rand_file(rng, &mut used, max_len);
                f.dest = name.into(); f.mode = Some(0o100644); f.mode_wide = None; f.link = None;
                cfg.files.push(f);
            }
        }
    }
    if max_files > 0 && rng.chance(1, 3) {
        let n = rng.below(9);
        for name in [format!("/.rc{n}"), format!("/rc{n}")] {
            used.push(name.clone());
            let mut f = rand_file(rng, &mut used, max_len);
            f.dest = name;
            cfg.files.push(f);
        }
    }
    cfg.compression = match rng.below(7) {
        0 => None,
        1 => Some(("none".into(), None)),
        2 => Some(("gzip".into(), if rng.chance(1, 2) { Some(rng.range(0, 9)) } else { None })),
        3 => Some(("zstd".into(), if rng.chance(1, 2) { Some(if rng.chance(1, 6) { *rng.pick(&[20i64, 21, 22]) } else { rng.range(1, 19) }) } else { None })),
        4 => Some(("xz".into(), if rng.chance(1, 2) { Some(if rng.chance(1, 6) { *rng.pick(&[7i64, 8, 9]) } else { rng.range(0, 6) }) } else { None })),
        5 => Some(("bzip2".into(), if rng.chance(1, 2) { Some(rng.range(1, 9)) } else { None })),
        _ => Some(("gzip".into(), Some(1))),
    };
    cfg.source_date = if rng.chance(2, 3) { Some(1_600_000_000) } else { None };
    cfg.late_source_date = rng.chance(1, 2);
    cfg.source_date_offset = *rng.pick(&[None, None, None, Some(0), Some(3600), Some(-18000), Some(34200), Some(i32::MAX)]);
    cfg
}

pub fn cfg_json(c: &Cfg) -> Value {
    let ob = |s: &Option<String>| match s { Some(x) => json!({"some": x.as_bytes()}), None => json!({"none": true}) };
    json!({
        "name": c.name.as_bytes(), "version": c.version.as_bytes(), "license": c.license.as_bytes(), "arch": c.arch.as_bytes(),
        "summary": c.summary.as_bytes(), "release": ob(&c.release),
        "epoch": match c.epoch { Some(e) => json!({"some": [e >> 16, e & 0xFFFF]}), None => json!({"none": true}) },
        "description": ob(&c.description), "vendor": ob(&c.vendor), "packager": ob(&c.packager), "group": ob(&c.group),
        "url": ob(&c.url), "vcs": ob(&c.vcs), "cookie": ob(&c.cookie), "build_host": ob(&c.build_host),
        "scripts": c.scripts.iter().map(|(k, s)| json!({"kind": SCRIPT_KINDS[*k], "script": s.script.as_bytes(),
            "flags": match s.flags { Some(f) => json!({"some": [f >> 16, f & 0xFFFF]}), None => json!({"none": true}) },
            "prog": match &s.prog { Some(p) => json!({"some": p.iter().map(|x| x.as_bytes().to_vec()).collect::<Vec<_>>()}), None => json!({"none": true}) }})).collect::<Vec<_>>(),
        "deps": c.deps.iter().map(|(k, d)| json!({"kind": DEP_KINDS[*k], "a": d.name.as_bytes(), "b": [d.flags >> 16, d.flags & 0xFFFF], "c": d.version.as_bytes()})).collect::<Vec<_>>(),
        "changelog": c.changelog.iter().map(|(n, t, ts)| json!({"a": n.as_bytes(), "b": [ts >> 16, ts & 0xFFFF], "c": t.as_bytes()})).collect::<Vec<_>>(),
        "compression": match &c.compression { Some((t, l)) => json!({"some": {"type": t, "level": match l { Some(x) => json!({"some": x}), None => json!({"none": true}) }}}), None => json!({"none": true}) },
        "source_date": match c.source_date { Some(e) => json!({"some": [e >> 16, e & 0xFFFF]}), None => json!({"none": true}) },
        "signer": match &c.signer { Some(k) => json!({"some": k}), None => json!({"none": true}) },
    })
}
