//! rpm-verif: conformance harness binding the TLA+ specification in /verif/spec to the real
//! rpm-rs/rpm code in /repo.  Each scenario drives the public API and records one ndjson event
//! per call (arguments + projected result) for validation by the matching trace specification,
//! or replays TLC-generated cases.
mod alloc;
mod util;
mod c02;
mod c03;
mod c04;
mod c06;
mod c07;
mod c10;
mod c11;
mod c12;
mod c13;
mod c14;
mod c15;
mod c17;
mod c18;
mod c19;
mod c20;
mod cfggen;
mod pkg;
mod pkgobs;
mod rawhdr;
mod rpmwalk;

#[global_allocator]
static GLOBAL: alloc::Counting = alloc::Counting;

struct ForceFormat;
impl log::Log for ForceFormat {
    fn enabled(&self, _: &log::Metadata) -> bool {
        true
    }
    fn log(&self, record: &log::Record) {
        // format (and drop) every message so that debug-only formatting code really runs
        let _ = format!("{}", record.args());
    }
    fn flush(&self) {}
}
static LOGGER: ForceFormat = ForceFormat;

fn main() {
    let args = util::Args::parse();
    util::quiet_panics();
    let _ = log::set_logger(&LOGGER);
    log::set_max_level(log::LevelFilter::Debug);
    match args.scenario.as_str() {
        "c02" => c02::run(&args),
        "c03" => c03::run(&args),
        "c04" => c04::run(&args),
        "c04-child" => c04::run_child(&args),
        "c06" => c06::run(&args),
        "c07" => c07::run(&args),
        "c10" => c10::run(&args),
        "c11" => c11::run(&args),
        "c12" => c12::run(&args),
        "c11-child" => c11::run_child(&args),
        "c13" => c13::run(&args),
        "c14" => c14::run(&args),
        "c15" => c15::run(&args),
        "c17" => c17::run(&args),
        "c17-level" => c17::run_level_child(&args),
        "c18" => c18::run(&args),
        "pkg" => pkg::run(&args),
        "walk" => rpmwalk::run(&args),
        "c19" => c19::run(&args),
        "c20" => c20::run(&args),
        other => {
            eprintln!("unknown scenario {other}");
            std::process::exit(2);
        }
    }
}
