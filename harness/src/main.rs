//! rpm-verif: conformance harness binding the TLA+ specification in /verif/spec to the real
//! rpm-rs/rpm code in /repo.  Each scenario drives the public API and records one ndjson event
//! per call (arguments + projected result) for validation by the matching trace specification,
//! or replays TLC-generated cases.
mod util;
mod c13;

fn main() {
    let args = util::Args::parse();
    util::quiet_panics();
    match args.scenario.as_str() {
        "c13" => c13::run(&args),
        other => {
            eprintln!("unknown scenario {other}");
            std::process::exit(2);
        }
    }
}
