//! Scenario `pkg`: feed byte strings to the parser and record a `Pkg` observation for each
//! (spec/Trace_Pkg.tla).  Families: repository assets; packages built / signed / cleared by the
//! library (also observed through the in-memory object's reported offsets); seeded structure-aware
//! mutants of small real packages; hand-encoded packages from TLC-generated cases.
use crate::cfggen as gen_;
use crate::pkgobs::{self, Opts};
use crate::rawhdr;
use crate::util::*;
use rpm::{IndexTag, Package};
use serde_json::{Value, json};

pub fn asset_paths() -> Vec<String> {
    let mut v = vec![];
    for d in ["/repo/test_assets", "/repo/test_assets/fixture_packages"] {
        let mut names: Vec<_> = std::fs::read_dir(d).unwrap().filter_map(|e| e.ok()).map(|e| e.path()).collect();
        names.sort();
        for p in names {
            if p.extension().map(|x| x == "rpm").unwrap_or(false) {
                v.push(p.to_string_lossy().to_string());
            }
        }
    }
    v
}

fn write_pkg(p: &Package) -> Vec<u8> {
    let mut out = vec![];
    p.write(&mut Plain(&mut out)).expect("write to Vec");
    out
}

fn observe_memory(t: &mut Tracer, p: &Package, origin: &str, emitted: bool, gets: bool) -> Vec<u8> {
    let bytes = write_pkg(p);
    let mut o = Opts::new(origin);
    o.emitted = emitted;
    o.gets = gets;
    o.digests = emitted;
    o.off_mem = Some(p.metadata.get_package_segment_offsets());
    o.file_api = true;
    for e in pkgobs::observe_all(&bytes, &o) { t.emit(e); }
    bytes
}

/// structure-aware mutation of a package's metadata region
/// a `Signing` implementation that returns a signature it already holds and reads nothing
#[derive(Debug)]
struct ReplaySigner {
    sig: Vec<u8>,
    alg: rpm::signature::AlgorithmType,
}
impl rpm::signature::Signing for ReplaySigner {
    type Signature = Vec<u8>;
    fn sign(&self, _data: impl std::io::Read, _t: rpm::Timestamp) -> Result<Vec<u8>, rpm::Error> {
        Ok(self.sig.clone())
    }
    fn algorithm(&self) -> rpm::signature::AlgorithmType {
        self.alg
    }
}

pub fn mutate(rng: &mut Rng, src: &[u8]) -> (Vec<u8>, String) {
    let mut b = src.to_vec();
    let lay = rawhdr::layout(src);
    let desc;
    match (rng.below(12), &lay) {
        (0, _) => {
            let p = rng.below(96) as usize;
            b[p] ^= 1 << rng.below(8);
            desc = format!("lead byte {p}");
        }
        (1, Some(l)) => {
            // intro field of either header
            let h = if rng.chance(1, 2) { 96 } else { l.hdr_at };
            let p = h + rng.below(16) as usize;
            b[p] = match rng.below(4) { 0 => b[p] ^ 1, 1 => b[p].wrapping_add(1), 2 => 0xFF, _ => 0 };
            desc = format!("intro byte {}", p - h);
        }
        (2..=7, Some(l)) => {
            let (hd, name) = if rng.chance(1, 3) { (&l.sig, "sig") } else { (&l.hdr, "hdr") };
            if hd.entries.is_empty() {
                return (b, "noop".into());
            }
            let k = rng.below(hd.entries.len() as u64) as usize;
            let p = hd.at + 16 + 16 * k;
            let field = rng.below(4) as usize;
            let cur = u32::from_be_bytes([b[p + 4 * field], b[p + 4 * field + 1], b[p + 4 * field + 2], b[p + 4 * field + 3]]);
            let dl = hd.dsize as u32;
            let newv: u32 = match field {
                0 => { let other = hd.entries[rng.below(hd.entries.len() as u64) as usize].tag; *rng.pick(&[cur.wrapping_add(1), cur.wrapping_sub(1), 0, 62, 63, 100, 1000, 5092, 5093, u32::MAX, other]) }
                1 => match rng.below(5) { 0 => cur | 0x0001_0000, 1 => cur | 0x8000_0000, 2 => cur | 0x0000_0100, _ => rng.below(12) as u32 },
                2 => *rng.pick(&[cur.wrapping_add(1), cur.wrapping_sub(1), 0, dl.wrapping_sub(1), dl, dl + 1, 0x7FFF_FFFF, 0x8000_0000, u32::MAX, cur ^ 0x8000_0000]),
                _ => *rng.pick(&[cur.wrapping_add(1), cur.wrapping_sub(1), 0, 1, dl, dl + 1, 0x0FFF_FFFF, 0x1000_0000, 0x7FFF_FFFF, 0x8000_0000, u32::MAX]),
            };
            b[p + 4 * field..p + 4 * field + 4].copy_from_slice(&newv.to_be_bytes());
            desc = format!("{name} entry {k} field {field} {cur:#x}->{newv:#x}");
        }
        (8, Some(l)) => {
            // store byte
            let hd = if rng.chance(1, 3) { &l.sig } else { &l.hdr };
            if hd.dsize == 0 {
                return (b, "noop".into());
            }
            let p = hd.store_at + rng.below(hd.dsize as u64) as usize;
            b[p] = *rng.pick(&[0u8, 0xFF, 0xC3, b'A', b[p] ^ 0x80]);
            desc = format!("store byte {}", p - hd.store_at);
        }
        (9, Some(l)) => {
            // signature padding / reserved bytes
            let pad_at = 96 + l.sig.len();
            if l.hdr_at > pad_at && rng.chance(1, 2) {
                b[pad_at + rng.below((l.hdr_at - pad_at) as u64) as usize] = 0xAA;
                desc = "sig padding".into();
            } else {
                let h = if rng.chance(1, 2) { 96 } else { l.hdr_at };
                b[h + 4 + rng.below(4) as usize] = 0x5A;
                desc = "reserved".into();
            }
        }
        (10, Some(l)) => {
            // swap two index entries of the main header (unsorted tags)
            let n = l.hdr.entries.len();
            if n < 3 {
                return (b, "noop".into());
            }
            let i = 1 + rng.below(n as u64 - 1) as usize;
            let j = 1 + rng.below(n as u64 - 1) as usize;
            let (pi, pj) = (l.hdr.at + 16 + 16 * i, l.hdr.at + 16 + 16 * j);
            for k in 0..16 {
                b.swap(pi + k, pj + k);
            }
            desc = format!("swap entries {i} {j}");
        }
        (_, Some(l)) => {
            // bytes behind the declared end: trailing garbage, or a second package in the same stream
            if rng.chance(1, 2) {
                if rng.chance(1, 3) {
                    b.extend_from_slice(src);
                    return (b, "whole package appended".into());
                }
                let n = 1 + rng.below(40) as usize;
                for _ in 0..n {
                    b.push(rng.below(256) as u8);
                }
                return (b, format!("{n} trailing bytes"));
            }
            if rng.chance(1, 4) {
                // the signature header's SIZE tag (header + payload length) understated / overstated
                if let Some(e) = l.sig.find(1000) {
                    let p = if e.offset >= 0 { l.sig.store_at.saturating_add(e.offset as usize) } else { usize::MAX - 8 };
                    if p.saturating_add(4) <= b.len() && e.typ == 4 {
                        let cur = u32::from_be_bytes([b[p], b[p + 1], b[p + 2], b[p + 3]]);
                        let newv = *rng.pick(&[cur / 2, cur.saturating_sub(1), cur.wrapping_add(1), 0, l.hdr.len() as u32, u32::MAX]);
                        b[p..p + 4].copy_from_slice(&newv.to_be_bytes());
                        return (b, format!("sig SIZE {cur} -> {newv}"));
                    }
                }
            }
            // truncate or extend the payload
            let keep = rng.below((b.len() - l.payload_at) as u64 + 1) as usize;
            b.truncate(l.payload_at + keep);
            if rng.chance(1, 4) {
                b.extend_from_slice(&[1, 2, 3]);
            }
            desc = format!("payload kept {keep}");
        }
        (_, None) => {
            let p = rng.below(b.len() as u64) as usize;
            b[p] ^= 0xFF;
            desc = format!("byte {p}");
        }
    }
    (b, desc)
}

/// hand-encode a package from a TLC-generated case (spec/Gen_Hdr.tla)
pub fn encode_case(c: &Value) -> Vec<u8> {
    let hdr_of = |h: &Value, region: u32| -> Vec<u8> {
        if let Some(ents) = h.get("typed") {
            let list: Vec<(u32, u32, Value)> = ents.as_array().unwrap().iter()
                .map(|e| (e["tag"].as_u64().unwrap() as u32, e["type"].as_u64().unwrap() as u32, e["v"].clone())).collect();
            match h.get("dribble") {
                Some(d) => {
                    let dl: Vec<(u32, u32, Value)> = d.as_array().unwrap().iter()
                        .map(|e| (e["tag"].as_u64().unwrap() as u32, e["type"].as_u64().unwrap() as u32, e["v"].clone())).collect();
                    rawhdr::encode_dribble(region, &list, &dl)
                }
                None => rawhdr::encode_wellformed(region, &list),
            }
        } else {
            let m = |k: &str, d: u8| h.get(k).and_then(|x| x.as_u64()).map(|x| x as u8).unwrap_or(d);
            let magic = [m("m0", 0x8e), m("m1", 0xad), m("m2", 0xe8), m("ver", 1)];
            let r = m("res", 0);
            let entries: Vec<[i64; 4]> = h["entries"].as_array().unwrap().iter()
                .map(|e| { let a = e.as_array().unwrap(); [a[0].as_i64().unwrap(), a[1].as_i64().unwrap(), a[2].as_i64().unwrap(), a[3].as_i64().unwrap()] }).collect();
            let store: Vec<u8> = h["store"].as_array().unwrap().iter().map(|x| x.as_u64().unwrap() as u8).collect();
            // negative numbers stand for u32 values >= 2^31 (TLC integers are 32-bit): -1 is 0xFFFFFFFF
            let n = h.get("nindex").and_then(|x| x.as_i64()).unwrap_or(entries.len() as i64) as u32;
            let d = h.get("dsize").and_then(|x| x.as_i64()).unwrap_or(store.len() as i64) as u32;
            rawhdr::encode_raw(magic, [r, r, r, r], n, d, &entries, &store)
        }
    };
    let mut lead = rawhdr::lead_bytes("case");
    if let Some(lv) = c.get("lead").and_then(|x| x.as_array()) {
        for pv in lv {
            let a = pv.as_array().unwrap();
            lead[a[0].as_u64().unwrap() as usize] = a[1].as_u64().unwrap() as u8;
        }
    }
    let sig = hdr_of(&c["sig"], 62);
    let hdr = hdr_of(&c["hdr"], 63);
    let payload: Vec<u8> = (0..c.get("payload").and_then(|x| x.as_u64()).unwrap_or(0)).map(|i| (i * 7 + 1) as u8).collect();
    rawhdr::assemble(&lead, &sig, &hdr, &payload, c.get("pad").and_then(|x| x.as_u64()).unwrap_or(0) as u8)
}

pub fn run(args: &Args) {
    let mut t = Tracer::create(args.req("out"));
    let mut rng = Rng::new(args.seed());
    let fam = args.get("families").unwrap_or("assets,built,mutants").to_string();
    let has = |f: &str| fam.split(',').any(|x| x == f);
    let gets = args.get("gets") != Some("0");
    let big_limit = args.num("maxbytes", 64 * 1024) as usize;
    let assets: Vec<(String, Vec<u8>)> = asset_paths().into_iter().map(|p| { let b = std::fs::read(&p).unwrap(); (p, b) }).collect();
    if has("assets") {
        for (p, bytes) in &assets {
            let lay = rawhdr::layout(bytes);
            if lay.map(|l| l.payload_at).unwrap_or(0) > big_limit {
                continue;
            }
            let mut o = Opts::new(&format!("asset:{}", p.rsplit('/').next().unwrap()));
            o.gets = gets;
            o.file_api = true;
            for e in pkgobs::observe_all(bytes, &o) { t.emit(e); }
        }
    }
    if has("built") {
        let wd = gen_::Workdir::new("pkg");
        let n = args.num("n", 30);
        for i in 0..n {
            let mut cfg = gen_::rand_cfg(&mut rng, 4, 3000);
            // every fourth package in the large-file layout (64-bit sizes, stripped archive) through the hook, with
            // names of every length mod 8 so that the 64-bit entries meet every alignment situation
            #[cfg(rpm_verif)]
            if i % 4 == 1 {
                cfg.name = format!("{}{}", cfg.name, "x".repeat((i as usize / 4) % 8));
                if cfg.files.is_empty() {
                    let mut used = vec![];
                    cfg.files.push(gen_::rand_file(&mut rng, &mut used, 50));
                }
                rpm::verif::set_large_file_threshold(0);
            }
            let built = guarded(|| gen_::build(&cfg, &wd));
            #[cfg(rpm_verif)]
            rpm::verif::set_large_file_threshold(u32::MAX as u64);
            let mut p = match built {
                Ok(Ok(p)) => p,
                Ok(Err(e)) => { t.emit(json!({"event":"BuildErr","i":i,"err":pkgobs::err_name(&e),"cfg":gen_::cfg_json(&cfg)})); continue; }
                Err(m) => { t.emit(json!({"event":"Panic","op":"build","i":i,"msg":m,"cfg":gen_::cfg_json(&cfg)})); continue; }
            };
            observe_memory(&mut t, &p, &format!("built:{i}"), true, gets);
            // sign / clear / public clear() histories on the in-memory object
            if i % 3 == 0 {
                // the four keys of tests/assets plus the RSA-2048 key of test_assets (whose signature makes
                // the signature header's data section a multiple of 8: no padding)
                let key = ["rsa4096", "rsa3072p", "ed25519", "ecdsa", "asset"][(i as usize / 3) % 5];
                if guarded(|| p.sign_with_timestamp(gen_::signer(key), 1_600_000_000u32)).map(|r| r.is_ok()).unwrap_or(false) {
                    observe_memory(&mut t, &p, &format!("signed:{i}:{key}"), true, false);
                }
                // a signer (any implementation of the public Signing trait) that does not read the data it is handed,
                // here one that replays a detached signature made beforehand over the same header
                if i % 6 == 0 {
                    let whole = write_pkg(&p);
                    if let Some(hb) = rawhdr::layout(&whole).map(|l| whole[l.hdr_at..l.payload_at].to_vec()) {
                        use rpm::signature::Signing;
                        if let Ok(Ok(sig)) = guarded(|| gen_::signer(key).sign(&hb[..], rpm::Timestamp::from(1_600_000_000u32))) {
                            let lazy = ReplaySigner { sig, alg: gen_::signer(key).algorithm() };
                            if guarded(|| p.sign_with_timestamp(lazy, 1_600_000_000u32)).map(|r| r.is_ok()).unwrap_or(false) {
                                observe_memory(&mut t, &p, &format!("replay-signed:{i}:{key}"), true, false);
                            }
                        }
                    }
                }
                if i % 2 == 0 {
                    let _ = guarded(|| p.clear_signatures());
                    observe_memory(&mut t, &p, &format!("cleared:{i}"), true, false);
                } else {
                    // the public Header::clear() on the signature header
                    let _ = guarded(|| p.metadata.signature.clear());
                    observe_memory(&mut t, &p, &format!("sigclear:{i}"), false, false);
                }
            }
        }
        // foreign packages re-signed / cleared by the library
        for (pth, bytes) in &assets {
            if bytes.len() > big_limit { continue; }
            if let Ok(Ok(mut p)) = guarded(|| Package::parse(&mut &bytes[..])) {
                let name = pth.rsplit('/').next().unwrap();
                if guarded(|| p.sign_with_timestamp(gen_::signer("ed25519"), 1_600_000_000u32)).map(|r| r.is_ok()).unwrap_or(false) {
                    observe_memory(&mut t, &p, &format!("resigned:{name}"), false, false);
                }
                let _ = guarded(|| p.clear_signatures());
                observe_memory(&mut t, &p, &format!("recleared:{name}"), false, false);
            }
        }
    }
    if has("mutants") {
        let n = args.num("mutants", 300);
        let small: Vec<&(String, Vec<u8>)> = assets.iter().filter(|(_, b)| b.len() < 9000).collect();
        let wd = gen_::Workdir::new("pkgm");
        let mut bases: Vec<Vec<u8>> = small.iter().map(|(_, b)| b.clone()).collect();
        for _ in 0..3 {
            let cfg = gen_::rand_cfg(&mut rng, 2, 200);
            if let Ok(Ok(p)) = guarded(|| gen_::build(&cfg, &wd)) {
                bases.push(write_pkg(&p));
            }
        }
        // the alignment padding behind the signature header with another length: more zero bytes, fewer, none
        for (bi, base) in bases.iter().enumerate() {
            let Some(lay) = rawhdr::layout(base) else { continue };
            let sig_end = lay.sig.store_at + lay.sig.dsize as usize;
            let pad = lay.hdr_at - sig_end;
            let mut variants: Vec<(String, Vec<u8>)> = vec![];
            for k in [1usize, 3, 8] {
                let mut m = base[..lay.hdr_at].to_vec();
                m.extend(std::iter::repeat(0u8).take(k));
                m.extend_from_slice(&base[lay.hdr_at..]);
                variants.push((format!("{k} extra zero bytes behind the signature padding"), m));
            }
            for cut in [pad, 1] {
                if cut > 0 && cut <= pad {
                    let mut m = base[..lay.hdr_at - cut].to_vec();
                    m.extend_from_slice(&base[lay.hdr_at..]);
                    variants.push((format!("{cut} of {pad} padding bytes removed"), m));
                }
            }
            for (desc, m) in variants {
                let mut o = Opts::new(&format!("mutant:pad{bi}:{desc}"));
                o.gets = false;
                for e in pkgobs::observe_all(&m, &o) { t.emit(e); }
            }
        }
        for i in 0..n {
            let base = &bases[rng.below(bases.len() as u64) as usize];
            let (mut m, mut desc) = mutate(&mut rng, base);
            if rng.chance(1, 3) {
                let (m2, d2) = mutate(&mut rng, &m);
                m = m2;
                desc = format!("{desc}; {d2}");
            }
            let mut o = Opts::new(&format!("mutant:{i}:{desc}"));
            o.gets = false;
            for e in pkgobs::observe_all(&m, &o) { t.emit(e); }
        }
    }
    // hand-encoded packages whose main header has no region and whose store ends with bytes no entry refers to
    // (or with a string): every prefix that ends inside those last bytes, and the package signed / cleared by the library
    if has("slack") {
        use crate::rawhdr::*;
        let lead = lead_bytes("slack");
        let sig = encode_wellformed(62, &[]);
        let mut variants: Vec<(String, Vec<u8>)> = vec![];
        for extra in 0..9usize {
            let mut store = b"name\0".to_vec();
            store.extend(std::iter::repeat(b'.').take(extra));
            variants.push((format!("slack{extra}"), encode_raw([0x8e, 0xad, 0xe8, 0x01], [0; 4], 1, store.len() as u32, &[[1000, 6, 0, 1]], &store)));
            let mut store2 = b"name\0".to_vec();
            store2.extend(std::iter::repeat(b'v').take(extra + 1));
            store2.push(0);
            variants.push((format!("string-last{extra}"), encode_raw([0x8e, 0xad, 0xe8, 0x01], [0; 4], 2, store2.len() as u32, &[[1000, 6, 0, 1], [1011, 6, 5, 1]], &store2)));
        }
        variants.push(("no-entries".into(), encode_raw([0x8e, 0xad, 0xe8, 0x01], [0; 4], 0, 24, &[], &[b's'; 24])));
        for (name, hdr) in variants {
            let bytes = assemble(&lead, &sig, &hdr, b"", 0);
            for cut in bytes.len().saturating_sub(40)..=bytes.len() {
                let mut o = Opts::new(&format!("slack:{name}:cut{cut}"));
                o.gets = false;
                for e in pkgobs::observe_all(&bytes[..cut], &o) { t.emit(e); }
            }
            let with_payload = assemble(&lead, &sig, &hdr, b"070701 some payload bytes", 0);
            if let Ok(Ok(mut p)) = guarded(|| Package::parse(&mut &with_payload[..])) {
                if guarded(|| p.sign_with_timestamp(gen_::signer("ed25519"), 1_600_000_000u32)).map(|r| r.is_ok()).unwrap_or(false) {
                    observe_memory(&mut t, &p, &format!("slack-signed:{name}"), false, false);
                    if guarded(|| p.clear_signatures()).map(|r| r.is_ok()).unwrap_or(false) {
                        observe_memory(&mut t, &p, &format!("slack-cleared:{name}"), false, false);
                    }
                }
            }
        }
    }
    if has("gen") {
        let cases = std::fs::read_to_string(args.req("cases")).expect("cases file");
        for (i, line) in cases.lines().enumerate() {
            if line.trim().is_empty() { continue; }
            let c: Value = serde_json::from_str(line).expect("case json");
            let bytes = encode_case(&c);
            let mut o = Opts::new(&format!("gen:{i}"));
            o.gets = c.get("gets").and_then(|x| x.as_bool()).unwrap_or(false);
            if let Some(tags) = c.get("raw_tags").and_then(|x| x.as_array()) {
                for tg in tags {
                    let n = tg.as_u64().unwrap() as u32;
                    if let Some(it) = <IndexTag as num_like::FromU32>::from_u32(n) {
                        o.raw_tags.push((it, n));
                    }
                }
            }
            for e in pkgobs::observe_all(&bytes, &o) { t.emit(e); }
        }
    }
    t.flush();
}

/// IndexTag implements num's FromPrimitive, which the harness does not depend on: go through the
/// handful of tags the generated cases use.
mod num_like {
    use rpm::IndexTag;
    pub trait FromU32: Sized {
        fn from_u32(n: u32) -> Option<Self>;
    }
    impl FromU32 for IndexTag {
        fn from_u32(n: u32) -> Option<IndexTag> {
            Some(match n {
                1000 => IndexTag::RPMTAG_NAME,
                1001 => IndexTag::RPMTAG_VERSION,
                1003 => IndexTag::RPMTAG_EPOCH,
                1004 => IndexTag::RPMTAG_SUMMARY,
                1009 => IndexTag::RPMTAG_SIZE,
                1028 => IndexTag::RPMTAG_FILESIZES,
                1030 => IndexTag::RPMTAG_FILEMODES,
                1047 => IndexTag::RPMTAG_PROVIDENAME,
                1117 => IndexTag::RPMTAG_BASENAMES,
                5008 => IndexTag::RPMTAG_LONGFILESIZES,
                5009 => IndexTag::RPMTAG_LONGSIZE,
                5092 => IndexTag::RPMTAG_PAYLOADDIGEST,
                _ => return None,
            })
        }
    }
}
