//! The feature-less build of the library: textual forms of the compression types (C15). Prints one JSON event per
//! line (without ids; the main harness re-emits them into its trace).
use rpm::CompressionType;
use serde_json::json;
use std::str::FromStr;

fn main() {
    let features = "none";
    for ct in [CompressionType::None, CompressionType::Gzip, CompressionType::Zstd, CompressionType::Xz, CompressionType::Bzip2] {
        let r = std::panic::catch_unwind(|| {
            let text = ct.to_string();
            let p = CompressionType::from_str(&text);
            (text, p.is_ok(), matches!(p, Ok(c) if c == ct))
        });
        match r {
            Ok((text, ok, same)) => println!("{}", json!({"event":"CtRT","text":text,"parse_ok":ok,"same":same,"features":features})),
            Err(_) => println!("{}", json!({"event":"Panic","op":"compression-name","features":features})),
        }
    }
    for s in ["", "gzip ", "GZIP", "lzma", "none\0", "zstd\n", "bzip", "xz2", "日本", "\u{1F600}"] {
        let r = std::panic::catch_unwind(|| { let _ = CompressionType::from_str(s); });
        println!("{}", if r.is_ok() { json!({"event":"ParseAny","returned":true,"features":features}) }
                       else { json!({"event":"Panic","op":"parse-any","text":s,"features":features}) });
    }
}
