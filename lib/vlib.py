"""Shared machinery for the /verif checks: harness build, TLC runs (MC / GEN / TRACE),
known-findings matching, evidence writing and exit-code discipline.

Exit codes: 0 held (maybe with KNOWN-FINDING lines), 1 violation (VIOLATION line printed),
2 tool error (cargo / TLC / timeout / malformed output) -- never a VIOLATION line.
"""
import fnmatch
import json
import os
import re
import shutil
import subprocess
import sys
import tempfile
import time
from concurrent.futures import ThreadPoolExecutor
from pathlib import Path

VERIF = Path(__file__).resolve().parent.parent
SPEC = VERIF / "spec"
HARNESS = VERIF / "harness"
EVIDENCE = VERIF / "evidence"
REPLAYS = VERIF / "replays"
KNOWN = VERIF / "known_findings.txt"
TLA_CP = "/opt/veriftools/tla/tla2tools.jar:/opt/veriftools/tla/CommunityModules-deps.jar"


class ToolError(Exception):
    pass


def log(*a):
    print(*a, file=sys.stderr, flush=True)


def tool_error(msg):
    print(f"TOOL-ERROR: {msg}", flush=True)
    sys.exit(2)


# --------------------------------------------------------------------------- harness

def build_harness(profile="verif"):
    """(Re)build the harness against /repo's current working tree. Path dependency => cargo
    recompiles rpm whenever a source file under /repo changed."""
    lock = HARNESS / "Cargo.lock"
    if not lock.exists():
        shutil.copy("/repo/Cargo.lock", lock)
    t0 = time.time()
    env = dict(os.environ, CARGO_NET_OFFLINE="true")
    p = subprocess.run(["cargo", "build", "--profile", profile, "--offline"], cwd=HARNESS,
                       env=env, stdout=subprocess.PIPE, stderr=subprocess.STDOUT, text=True)
    if p.returncode != 0:
        log(p.stdout[-6000:])
        raise ToolError(f"cargo build failed (profile {profile})")
    log(f"[build] harness ({profile}) {time.time()-t0:.1f}s")
    return HARNESS / "target" / profile / "rpm-verif"


HARNESS_MIN = VERIF / "harness-min"


def run_harness_min(out_path):
    """Build the feature-less mini harness (the library with `default-features = false`) against /repo's current
    working tree, run it and store the events it prints."""
    lock = HARNESS_MIN / "Cargo.lock"
    if not lock.exists():
        shutil.copy("/repo/Cargo.lock", lock)
    t0 = time.time()
    p = subprocess.run(["cargo", "build", "--profile", "verif", "--offline"], cwd=HARNESS_MIN, env=dict(os.environ, CARGO_NET_OFFLINE="true"),
                       stdout=subprocess.PIPE, stderr=subprocess.STDOUT, text=True)
    if p.returncode != 0:
        log(p.stdout[-6000:])
        raise ToolError("cargo build of harness-min failed")
    r = subprocess.run([str(HARNESS_MIN / "target" / "verif" / "rpm-verif-min")], cwd=VERIF, stdout=subprocess.PIPE, stderr=subprocess.PIPE, text=True, timeout=300)
    log(f"[build+run] harness-min {time.time()-t0:.1f}s rc={r.returncode}")
    if r.returncode != 0 or not r.stdout.strip():
        log(r.stderr[-3000:])
        raise ToolError(f"harness-min exited {r.returncode}")
    Path(out_path).write_text(r.stdout)
    return out_path


def run_harness(binary, args, timeout=1800, env=None, check=True, stdin=None):
    e = dict(os.environ)
    e.setdefault("RUST_BACKTRACE", "0")
    if env:
        e.update(env)
    t0 = time.time()
    try:
        p = subprocess.run([str(binary)] + [str(a) for a in args], cwd=VERIF, env=e, timeout=timeout,
                           stdout=subprocess.PIPE, stderr=subprocess.PIPE, text=True, input=stdin)
    except subprocess.TimeoutExpired:
        raise ToolError(f"harness timed out after {timeout}s: {args}")
    log(f"[harness] {' '.join(str(a) for a in args[:6])} -> {p.returncode} {time.time()-t0:.1f}s")
    if check and p.returncode != 0:
        log(p.stdout[-3000:])
        log(p.stderr[-3000:])
        raise ToolError(f"harness exited {p.returncode}: {args}")
    return p


# --------------------------------------------------------------------------- TLC

STATS_RE = re.compile(r"(\d+) states generated, (\d+) distinct states found")


def tlc(module, cfg, scratch, env=None, workers=1, timeout=900, xmx="3g", extra=None, deque=False,
        simulate=None, light=False):
    """Run TLC on spec/<module>.tla with spec/<cfg>. Returns dict(out, generated, distinct, ok, rc)."""
    meta = Path(scratch) / f"meta_{module}_{os.getpid()}_{time.time_ns()}"
    meta.mkdir(parents=True, exist_ok=True)
    jopts = "-Xss1g"
    if deque:
        jopts += " -Dtlc2.tool.queue.IStateQueue=StateDeque"
    e = dict(os.environ)
    if env:
        e.update({k: str(v) for k, v in env.items()})
    e["JAVA_TOOL_OPTIONS"] = jopts
    # measured: 14 concurrent TLC JVMs with default JIT/GC threads thrash (32 s each instead of
    # 4 s); serial GC + C1-only compilation brings the batch back to ~5 s
    jvm = (["-XX:+UseSerialGC", "-XX:TieredStopAtLevel=1"] if light else
           ["-XX:+UseParallelGC", f"-XX:ParallelGCThreads={max(2, min(workers, 8))}", "-XX:CICompilerCount=3"])
    # (TLC leaves an empty tlc-* directory per run in java.io.tmpdir: keep them inside the scratch directory)
    jtmp = Path(scratch) / "jtmp"
    jtmp.mkdir(parents=True, exist_ok=True)
    jvm = jvm + [f"-Djava.io.tmpdir={jtmp}"]
    cmd = ["java"] + jvm + [f"-Xmx{xmx}", "-cp", TLA_CP, "tlc2.TLC",
           "-workers", str(workers), "-metadir", str(meta), "-cleanup", "-noGenerateSpecTE",
           "-config", str(cfg)]
    if simulate:
        cmd += ["-simulate", simulate]
    if extra:
        cmd += extra
    cmd += [str(module)]
    t0 = time.time()
    try:
        p = subprocess.run(cmd, cwd=SPEC, env=e, timeout=timeout, stdout=subprocess.PIPE,
                           stderr=subprocess.STDOUT, text=True)
    except subprocess.TimeoutExpired:
        shutil.rmtree(meta, ignore_errors=True)
        raise ToolError(f"TLC timed out after {timeout}s on {module} / {cfg}")
    shutil.rmtree(meta, ignore_errors=True)
    out = p.stdout
    gen = dist = 0
    for m in STATS_RE.finditer(out):
        gen, dist = int(m.group(1)), int(m.group(2))
    ok = ("Model checking completed. No error has been found." in out) or \
         (simulate is not None and p.returncode == 0)
    log(f"[tlc] {module} {cfg} workers={workers} -> rc={p.returncode} gen={gen} dist={dist} "
        f"{time.time()-t0:.1f}s")
    return dict(out=out, generated=gen, distinct=dist, ok=ok, rc=p.returncode, wall=time.time() - t0)


def mc(module, cfg, scratch, workers=4, timeout=900, env=None, xmx="4g", coverage=False):
    """Exhaustive model check of the specification itself. A failure here is a broken spec
    (tool error), never a property violation of the implementation."""
    extra = ["-coverage", "1"] if coverage else None
    r = tlc(module, cfg, scratch, env=env, workers=workers, timeout=timeout, xmx=xmx, extra=extra)
    if not r["ok"]:
        log(r["out"][-5000:])
        raise ToolError(f"spec self-check failed: {module} / {cfg}")
    return r


def gen_cases(module, cfg, scratch, out_path, env=None, workers=1, timeout=900, xmx="4g"):
    """Run a GEN configuration: the spec writes cases itself (ndjson) to $OUT; returns TLC stats."""
    e = dict(env or {})
    e["OUT"] = str(out_path)
    r = tlc(module, cfg, scratch, env=e, workers=workers, timeout=timeout, xmx=xmx)
    if not r["ok"]:
        log(r["out"][-5000:])
        raise ToolError(f"case generation failed: {module} / {cfg}")
    return r


def _validate_one(module, cfg, scratch, trace_path, idx, timeout, env, xmx):
    outp = Path(scratch) / f"verdict_{module}_{idx}.json"
    if outp.exists():
        outp.unlink()
    e = dict(env or {})
    e["TRACE"] = str(trace_path)
    e["OUT"] = str(outp)
    for attempt in range(3):
        r = tlc(module, cfg, scratch, env=e, workers=1, timeout=timeout, xmx=xmx, deque=True, light=True)
        if r["ok"] and outp.exists():
            break
        # a JVM that died without a TLC diagnosis (memory / process pressure on a loaded machine) is retried;
        # a genuine evaluation error is reported at once
        if "Error:" in r["out"] or "error" in r["out"].lower().split("picked up")[0]:
            break
        log(f"[tlc] {module} shard {idx}: no verdict and no TLC error (rc={r['rc']}), retrying")
        time.sleep(2 + 3 * attempt)
    if not r["ok"] or not outp.exists():
        log(r["out"][-6000:])
        raise ToolError(f"trace validation did not complete: {module} shard {idx}")
    v = json.loads(outp.read_text())
    return r, v


def validate_trace(module, cfg, scratch, trace_path, shards=1, timeout=900, env=None, xmx="2g"):
    """Validate an ndjson trace against spec/<module>. Events must carry a unique integer `id`.
    With shards > 1 the file is split into contiguous chunks at episode boundaries (events with
    `ep_start: true`, or any line if no event has it) validated by independent TLC processes.
    Returns dict(events, rejects=[{id, why, ...}], nrej, generated, distinct)."""
    lines = Path(trace_path).read_text().splitlines()
    lines = [ln for ln in lines if ln.strip()]
    n = len(lines)
    if n == 0:
        raise ToolError(f"empty trace {trace_path}")
    chunks = []
    if shards <= 1 or n < 2 * shards:
        chunks = [lines]
    else:
        has_ep = any('"ep_start":true' in ln for ln in lines)
        if not has_ep:
            # stateless events: deal round-robin so that heavy and light events mix
            chunks = [lines[i::shards] for i in range(shards)]
        else:
            target = (n + shards - 1) // shards
            cur = []
            for ln in lines:
                if len(cur) >= target and '"ep_start":true' in ln:
                    chunks.append(cur)
                    cur = []
                cur.append(ln)
            if cur:
                chunks.append(cur)
    paths = []
    for i, ch in enumerate(chunks):
        p = Path(scratch) / f"trace_{module}_{i}.ndjson"
        p.write_text("\n".join(ch) + "\n")
        paths.append(p)
    results = []
    with ThreadPoolExecutor(max_workers=min(len(paths), 12)) as ex:
        futs = [ex.submit(_validate_one, module, cfg, scratch, p, i, timeout, env, xmx)
                for i, p in enumerate(paths)]
        for f in futs:
            results.append(f.result())
    events = sum(v["events"] for _, v in results)
    if events != n:
        raise ToolError(f"trace validation consumed {events} of {n} events ({module})")
    rejects = []
    nrej = 0
    for _, v in results:
        rejects.extend(v.get("rej", []))
        nrej += v.get("nrej", 0)
    return dict(events=events, rejects=rejects, nrej=nrej,
                generated=sum(r["generated"] for r, _ in results),
                distinct=sum(r["distinct"] for r, _ in results))


def apalache(module, inv, scratch, timeout=900, init="Init", next_="Next", length=0, expect_violation=False):
    """Discharge `init => inv` (length 0) or `init /\\ next => inv'` (length 1) over unbounded integers with
    Apalache.  Returns True on NoError; a counterexample or a tool problem is a ToolError (the lemma is about the
    specification, not the code).  With expect_violation the roles are swapped: the (defective) design must be
    refuted, which shows that the lemma is not vacuous."""
    out_dir = Path(scratch) / f"apalache_{module}_{init}_{next_}_{inv}_{length}"
    t0 = time.time()
    try:
        p = subprocess.run(["apalache-mc", "check", f"--init={init}", f"--next={next_}", f"--inv={inv}", f"--length={length}",
                            f"--out-dir={out_dir}", f"{module}.tla"], cwd=SPEC, timeout=timeout,
                           stdout=subprocess.PIPE, stderr=subprocess.STDOUT, text=True)
    except subprocess.TimeoutExpired:
        raise ToolError(f"apalache timed out on {module}")
    shutil.rmtree(out_dir, ignore_errors=True)
    log(f"[apalache] {module} {init}/{next_}/{inv}/{length} -> rc={p.returncode} {time.time()-t0:.1f}s")
    if expect_violation:
        if "The outcome is: Error" not in p.stdout or "violat" not in p.stdout:
            log(p.stdout[-3000:])
            raise ToolError(f"apalache did not refute {inv} of {module} under {next_}")
        return True
    if "The outcome is: NoError" not in p.stdout:
        log(p.stdout[-3000:])
        raise ToolError(f"apalache did not discharge {inv} of {module}")
    return True


# --------------------------------------------------------------------------- known findings

def load_known(prop):
    """known_findings.txt lines:
         finding: property=<id> key=<glob> <free text>
         fixed:   property=<id> <commit> <free text>       (suppresses nothing)
    """
    out = []
    if not KNOWN.exists():
        return out
    for ln in KNOWN.read_text().splitlines():
        ln = ln.strip()
        if not ln.startswith("finding:"):
            continue
        m = re.match(r"finding:\s+property=(\S+)\s+key=(\S+)\s*(.*)", ln)
        if m and m.group(1) == prop:
            out.append(dict(key=m.group(2), text=m.group(3)))
    return out


# --------------------------------------------------------------------------- a check run

class Check:
    def __init__(self, prop, tier, seed, level="model_checking"):
        self.prop = prop
        self.tier = tier
        self.seed = seed
        self.level = level
        self.t0 = time.time()
        self.scratch = Path(tempfile.mkdtemp(prefix=f"verif_{prop}_"))
        self.states = 0
        self.transitions = 0
        self.traces = 0
        self.evaluations = 0
        self.nontrivial = 0
        self.samples = []
        self.rule = ""
        self.extra = {}
        self.assumptions = []
        self.violations = []      # dicts(key, why, event)
        self.exhaustive = None
        self.canaries = 0

    # --- accounting
    def add_tlc(self, r):
        self.states += r.get("distinct", 0)
        self.transitions += r.get("generated", 0)

    def add_validation(self, v, traces=1):
        self.states += v["distinct"]
        self.transitions += v["generated"]
        self.traces += traces

    def violation(self, key, why, event=None):
        self.violations.append(dict(key=str(key), why=str(why), event=event))

    def expect_canary(self, rejects, canary_ids, what="canary"):
        """Binding demonstration: the corrupted events must be rejected by the spec. Returns the
        rejects that are *not* canaries."""
        got = {r["id"] for r in rejects}
        missing = [c for c in canary_ids if c not in got]
        if missing:
            raise ToolError(f"{what}: corrupted event(s) {missing} were accepted by the trace "
                            f"specification - the binding is not effective")
        self.canaries += len(canary_ids)
        return [r for r in rejects if r["id"] not in set(canary_ids)]

    # --- end
    def finish(self):
        wall = time.time() - self.t0
        known = load_known(self.prop)
        new, matched = [], []
        for v in self.violations:
            k = next((f for f in known if fnmatch.fnmatchcase(v["key"], f["key"])), None)
            (matched if k else new).append((v, k))
        cov = dict(
            states=max(self.states, 0), transitions=max(self.transitions, 0),
            traces_validated_against_impl=self.traces,
            evaluations=self.evaluations, distinct_nontrivial=self.nontrivial,
            rule=self.rule, samples=self.samples[:8], canaries_rejected=self.canaries,
            known_findings_matched=len(matched),
        )
        if self.exhaustive is not None:
            cov["exhaustive"] = self.exhaustive
        cov.update(self.extra)
        ev = dict(property_id=self.prop, tier=self.tier, seed=self.seed, level=self.level,
                  coverage=cov, assumptions=self.assumptions, wall_s=round(wall, 2),
                  violations=len(new))
        EVIDENCE.mkdir(exist_ok=True)
        (EVIDENCE / f"{self.prop}.json").write_text(json.dumps(ev, indent=1, default=str) + "\n")
        seen = set()
        for v, k in matched:
            if k["key"] in seen:
                continue
            seen.add(k["key"])
            print(f"KNOWN-FINDING: property={self.prop} {k['key']} {k['text']}", flush=True)
        rc = 0
        if new:
            REPLAYS.mkdir(exist_ok=True)
            seenk = set()
            for v, _ in new:
                if v["key"] in seenk:
                    continue
                seenk.add(v["key"])
                if len(seenk) > 20:
                    break
                safe = re.sub(r"[^A-Za-z0-9_.-]", "_", v["key"])[:80]
                path = REPLAYS / f"{self.prop}_{safe}.json"
                path.write_text(json.dumps(dict(property=self.prop, key=v["key"], why=v["why"],
                                                event=v["event"], seed=self.seed, tier=self.tier),
                                           indent=1, default=str) + "\n")
                print(f"VIOLATION property={self.prop} replay={path}", flush=True)
                log(f"  key={v['key']} why={v['why']}")
            rc = 1
        shutil.rmtree(self.scratch, ignore_errors=True)
        log(f"[{self.prop}] tier={self.tier} wall={wall:.1f}s states={self.states} "
            f"evals={self.evaluations} violations={len(new)} known={len(matched)}")
        sys.exit(rc)


def read_ndjson(path):
    out = []
    with open(path) as f:
        for ln in f:
            ln = ln.strip()
            if ln:
                out.append(json.loads(ln))
    return out


def write_ndjson(path, events):
    with open(path, "w") as f:
        for e in events:
            f.write(json.dumps(e, separators=(",", ":")) + "\n")
