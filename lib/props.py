"""Per-property drivers. Each takes a vlib.Check, runs MC / GEN / TRACE legs and calls ck.finish()."""
import copy
import json
from pathlib import Path

import vlib
from vlib import ToolError, log, read_ndjson, write_ndjson

REGISTRY = {}


def prop(pid):
    def deco(f):
        REGISTRY[pid] = f
        return f
    return deco


def replay(pid, path):
    """Re-run one recorded violating event through the trace specification and print the verdict."""
    rep = json.loads(Path(path).read_text())
    print(json.dumps(rep, indent=1)[:4000])
    mod = TRACE_MODULE.get(pid)
    if not mod or rep.get("event") is None:
        return
    ck = vlib.Check(pid, "quick", rep.get("seed", 1))
    ev = rep["event"]
    evs = ev if isinstance(ev, list) else [ev]
    tr = ck.scratch / "replay.ndjson"
    write_ndjson(tr, evs)
    v = vlib.validate_trace(mod, f"{mod}.cfg", ck.scratch, tr)
    print("spec verdict:", json.dumps(v["rejects"]))


TRACE_MODULE = {}


def add_rejects(ck, rejects, events_by_id, keyfn):
    for r in rejects:
        ev = events_by_id.get(r["id"])
        if ev is None:
            continue        # collateral rejects inside a corrupted canary episode
        ck.violation(keyfn(ev, r), r.get("why", ""), ev)


def sample_events(ck, events, kinds, per_kind=1):
    seen = {}
    for e in events:
        k = e.get("event")
        if k in kinds and seen.get(k, 0) < per_kind:
            seen[k] = seen.get(k, 0) + 1
            s = json.dumps(e)
            ck.samples.append(json.loads(s) if len(s) < 1500 else {"event": k, "truncated": s[:1500]})


# ------------------------------------------------------------------------------------ C13
TRACE_MODULE["C13"] = "Trace_C13"


@prop("C13")
def c13(ck):
    thorough = ck.tier == "thorough"
    binary = vlib.build_harness()
    # MC: the specification itself (small-step machine == big-step, RpmVerCmp == KeyCmp, order laws)
    r = vlib.mc("MC_RpmVerCmp", "MC_RpmVerCmp_thorough.cfg" if thorough else "MC_RpmVerCmp_quick.cfg",
                ck.scratch, workers=8, timeout=3000)
    ck.add_tlc(r)
    # TRACE: exhaustive rows over the canonical domain + seeded long pairs/triples + EVR/NEVRA tuples
    families = [("48,49,57,97,98,90,46,45,95,126,94,233", 3 if thorough else 2, 20000 if thorough else 3000)]
    if thorough:
        families.append(("48,49,97,90,46,126,94,233", 4, 200000))
    else:
        families.append(("48,49,97,90,46,126,94,233", 3, 3000))
    total_pairs = 0
    for fi, (alpha, maxlen, pairs) in enumerate(families):
        tr = ck.scratch / f"c13_{fi}.ndjson"
        vlib.run_harness(binary, ["c13", "--out", tr, "--seed", ck.seed + fi, "--alpha", alpha,
                                  "--maxlen", maxlen, "--pairs", pairs, "--triples", pairs // 4])
        events = read_ndjson(tr)
        by_id = {e["id"]: e for e in events}
        # canaries: corrupt one recorded result of a row, a pair and an EVR tuple
        nid = max(by_id) + 1
        canaries = []
        for kind, mut in (("CmpRow", lambda e: e["res"].__setitem__(len(e["res"]) // 2, 1 if e["res"][len(e["res"]) // 2] != 1 else -1)),
                          ("CmpPair", lambda e: e.__setitem__("res", 0 if e["res"] != 0 else 1)),
                          ("EvrRow", lambda e: e.__setitem__("ord", 0 if e["ord"] != 0 else 1))):
            src = next((e for e in events if e["event"] == kind), None)
            if src is None:
                raise ToolError(f"no {kind} event recorded")
            c = copy.deepcopy(src)
            mut(c)
            c["id"] = nid
            canaries.append(nid)
            nid += 1
            events.insert(0, c)
        write_ndjson(tr, events)
        v = vlib.validate_trace("Trace_C13", "Trace_C13.cfg", ck.scratch, tr, shards=14, timeout=3000)
        ck.add_validation(v)
        rej = ck.expect_canary(v["rejects"], canaries)
        add_rejects(ck, rej, by_id, lambda e, r: f"{e['event']}:{vlib_codes(e.get('a'))}" if e else "?")
        if v["nrej"] - len(canaries) > len(rej):
            log(f"  ({v['nrej']} rejected events in total)")
        rows = [e for e in events if e["event"] == "CmpRow"]
        n = len(rows)
        total_pairs += n * n
        ck.evaluations += n * n + sum(1 for e in events if e["event"] != "CmpRow")
        ck.nontrivial += sum(1 for e in rows for x in e["res"] if x != 0) + \
            sum(1 for e in events if e["event"] in ("CmpPair", "EvrRow", "NevraRow") and e.get("res", e.get("ord")) != 0)
        sample_events(ck, events, {"CmpPair", "Triple", "EvrRow", "NevraRow"})
    ck.rule = ("all ordered pairs of strings over the stated alphabets up to the stated length (complete "
               "within the bound), seeded long pairs/triples biased to shared prefixes, leading zeros and "
               "separator runs, EVR and NEVRA tuples; non-trivial = distinct ordered pairs whose expected "
               "result is not 'equal'")
    ck.extra.update(exhaustive_pairs=total_pairs, domains=[dict(alphabet=a, maxlen=m) for a, m, _ in families])
    ck.assumptions += ["rpmvercmp transcribed from rpm's lib/rpmvercmp.c; cross-validated in TLC against the "
                       "token-key order on the MC domain", "code points >= 128 behave as separators"]
    ck.finish()


def vlib_codes(cs):
    if cs is None:
        return ""
    return "".join(chr(c) for c in cs)


# ------------------------------------------------------------------------------------ helpers
def stateless_check(ck, binary, scenario, module, hargs, canary_specs, keyfn, shards=14,
                    count_nontrivial=None, sample_kinds=(), timeout=3000):
    """Common shape: harness emits a stateless trace; canaries are corrupted copies of recorded
    events; the trace specification validates every event."""
    tr = ck.scratch / f"{scenario}.ndjson"
    vlib.run_harness(binary, [scenario, "--out", tr, "--seed", ck.seed, "--tier", ck.tier] + hargs,
                     timeout=timeout)
    events = read_ndjson(tr)
    by_id = {e["id"]: e for e in events}
    nid = max(by_id) + 1
    canaries = []
    for kind, mut in canary_specs:
        src = next((e for e in events if e["event"] == kind), None)
        if src is None:
            # the harness reports an operation of the library that panicked (or ran away) as a Panic event in place
            # of the usual one: that event is rejected by the trace specification, there is nothing to make a canary of
            if any(e["event"] == "Panic" for e in events):
                continue
            raise ToolError(f"no {kind} event recorded by {scenario}")
        c = copy.deepcopy(src)
        mut(c)
        c["id"] = nid
        canaries.append(nid)
        nid += 1
        events.insert(0, c)     # canaries first: the reject list is capped
    write_ndjson(tr, events)
    v = vlib.validate_trace(module, f"{module}.cfg", ck.scratch, tr, shards=shards, timeout=timeout)
    ck.add_validation(v)
    rej = ck.expect_canary(v["rejects"], canaries)
    add_rejects(ck, rej, by_id, keyfn)
    if v["nrej"] - len(canaries) > len(rej):
        log(f"  ({v['nrej'] - len(canaries)} rejected events in total)")
    real = [e for e in events if e["id"] not in set(canaries)]
    sample_events(ck, real, set(sample_kinds))
    return real


def s_(cs):
    return "".join(chr(c) for c in cs) if isinstance(cs, list) else str(cs)


# ------------------------------------------------------------------------------------ C18
TRACE_MODULE["C18"] = "Trace_C18"


@prop("C18")
def c18(ck):
    binary = vlib.build_harness()
    ck.add_tlc(vlib.mc("MC_FileMode", "MC_FileMode.cfg", ck.scratch, workers=4))
    vlib.apalache("LayoutInd", "ModeAlgebra", ck.scratch)      # type / permission split recombines (SMT, all 16-bit words)
    def bump(field):
        return lambda e: e[field].__setitem__(7, e[field][7] ^ 1)
    def widen(e):
        # pretend one integer far outside the 16-bit range was converted (wrong whatever the library under test did to
        # the edges of the range: an edge value made a corrupted copy come out *right* under one seeded change)
        x = 1000000
        for i, r in enumerate(e["runs"]):
            if r["lo"] <= x <= r["hi"]:
                new = [{"lo": r["lo"], "hi": x - 1, "verdict": r["verdict"]}] if r["lo"] < x else []
                new.append({"lo": x, "hi": x, "verdict": "ok"})
                if x < r["hi"]:
                    new.append({"lo": x + 1, "hi": r["hi"], "verdict": r["verdict"]})
                e["runs"][i:i + 1] = new
                break
    events = stateless_check(
        ck, binary, "c18", "Trace_C18", [],
        [("ModeBlock", bump("raw")), ("ModeBlock", bump("class")), ("NegBlock", bump("perms")),
         ("CtorBlock", bump("perms")), ("I32Runs", widen)],
        lambda e, r: f"{e['event']}:{e.get('kind','')}:{e.get('base','')}" if e else "?", shards=8)
    runs = next((e for e in events if e["event"] == "I32Runs"), {"runs": []})["runs"]
    ck.samples.append({"I32Runs": runs})
    ck.samples.append({"ModeBlock base 32768 raw[0..4]": next(e for e in events if e["event"] == "ModeBlock" and e["base"] == 32768)["raw"][:4]})
    ck.evaluations = 65536 + 32768 + 3 * 65536 + 2 ** 32
    ck.nontrivial = 65536 + 32768 + 3 * 4096 + len(runs)
    ck.exhaustive = True
    ck.rule = ("complete enumeration: all 65 536 words through From<u16> and From<i32>, all in-range negative "
               "integers, the three constructors on all 65 536 arguments, and all 2^32 integers run-length "
               "encoded into maximal verdict intervals; distinct non-trivial = distinct words / constructor "
               "permission classes / verdict intervals")
    ck.finish()


# ------------------------------------------------------------------------------------ C20
TRACE_MODULE["C20"] = "Trace_C20"


@prop("C20")
def c20(ck):
    binary = vlib.build_harness()
    ck.add_tlc(vlib.mc("MC_Timestamp", "MC_Timestamp.cfg", ck.scratch, workers=4))
    # full scale (Apalache, true integers): the two-digit encoding is an order isomorphism on 0..2^32-1 and the
    # statement's conversion is exact / monotone on all integers; a deliberately wrong ordering is refuted
    vlib.apalache("DigitsInd", "Inv", ck.scratch)
    vlib.apalache("DigitsInd", "Wrong", ck.scratch, expect_violation=True)
    ck.extra["unbounded_lemma"] = "DigitsInd!Inv (Recombine, OrderIso, EqIso, Monotone, Exact) discharged by Apalache at full 32-bit scale"
    def flip(e):
        e["out"] = {"kind": "Ok", "v": [0, 0]} if e["out"]["kind"] != "Ok" else {"kind": "Overflow"}
    def off_by_one(e):
        e["out"]["v"][1] = (e["out"]["v"][1] + 1) % 65536
    events = stateless_check(
        ck, binary, "c20", "Trace_C20", [],
        [("Ts", flip)], lambda e, r: f"{e['event']}:{e.get('src')}:{e.get('off')}:{'-' if e.get('neg') else ''}{e.get('d')}:{e.get('nanos')}" if e else "?",
        sample_kinds=("Ts", "TsPair"))
    ts = [e for e in events if e["event"] == "Ts"]
    ck.evaluations = len(events)
    ck.nontrivial = len({(e["neg"], tuple(e["d"]), e["nanos"] > 0, e["src"], e["off"]) for e in ts
                         if e["out"]["kind"] != "Ok" or e["d"][3] in (0, 32767, 32768, 65535)})
    ck.extra["outcomes"] = {k: sum(1 for e in ts if e["out"]["kind"] == k) for k in ("Ok", "Underflow", "Overflow")}
    ck.rule = ("every second in windows around 0, 2^31 and 2^32 with sub-second offsets 0, 1 ns, 0.5 s, "
               "1 s - 1 ns, extremes of SystemTime and chrono, fixed offsets from -12 h to +14 h, seeded random "
               "instants; through TryFrom<SystemTime> and TryFrom<DateTime<_>>; non-trivial = distinct "
               "(instant, source) whose outcome is an error or lies at a 16-bit digit boundary")
    ck.assumptions.append("instants are constructed by the harness from exact (seconds, nanoseconds) pairs via std / chrono constructors")
    ck.finish()


# ------------------------------------------------------------------------------------ C19
TRACE_MODULE["C19"] = "Trace_C19"


@prop("C19")
def c19(ck):
    binary = vlib.build_harness()
    maxtok = 6 if ck.tier == "thorough" else 4
    def flipacc(e):
        k = next(i for i, a in enumerate(e["acc"]) if a == 1) if 1 in e["acc"] else 0
        e["acc"][k] = 0 if e["acc"][k] == 1 else 1
    def flipone(e):
        e["acc"] = 0 if e["acc"] == 1 else 1
    events = stateless_check(
        ck, binary, "c19", "Trace_C19", ["--maxtok", maxtok, "--random", 200000 if ck.tier == "thorough" else 20000],
        [("CapsBlock", flipacc), ("Caps", flipone)],
        lambda e, r: (f"Caps:{s_(e['text'])}" if e["event"] == "Caps" else f"{e['event']}:{e.get('start')}") if e else "?",
        sample_kinds=("Caps",))
    blocks = [e for e in events if e["event"] == "CapsBlock"]
    n = sum(len(b["acc"]) for b in blocks)
    ck.evaluations = n + sum(1 for e in events if e["event"] == "Caps")
    ck.nontrivial = sum(1 for b in blocks for a in b["acc"] if a == 1) + len({tuple(e["text"]) for e in events if e["event"] == "Caps" and e["acc"] == 1})
    ck.extra["accepted_in_domain"] = sum(1 for b in blocks for a in b["acc"] if a == 1)
    ck.extra["domain"] = f"all strings of <= {maxtok} tokens over the 13-token alphabet ({n} strings, complete)"
    ck.rule = ("complete bounded domain over {cap_chown, CAP_KILL, all, cap_bogus, ',', '=', '+', '-', e, i, p, x, ' '} "
               "plus seeded longer strings over all 41 names; each text goes through FileCaps::from_str, "
               "FileCaps::new and FileOptions::caps; non-trivial = distinct accepted texts")
    ck.assumptions.append("'all' is read as an alternative to the name list (\"names (or 'all')\"): a comma list that contains 'all' next to other names is ill-formed")
    ck.finish()


# ------------------------------------------------------------------------------------ C15
TRACE_MODULE["C15"] = "Trace_C15"


@prop("C15")
def c15(ck):
    binary = vlib.build_harness()
    thorough = ck.tier == "thorough"
    ck.add_tlc(vlib.mc("MC_Evr", "MC_Evr_thorough.cfg" if thorough else "MC_Evr_quick.cfg", ck.scratch, workers=8, timeout=3000))
    def bad_parse(e):
        e["parsed"]["n"] = e["parsed"]["n"] + [45]
    def bad_text(e):
        e["text"] = e["text"][:-1]
    extra = vlib.run_harness_min(ck.scratch / "c15_min.ndjson")
    events = stateless_check(
        ck, binary, "c15", "Trace_C15", ["--namelen", 3 if thorough else 2, "--random", 1000000 if thorough else 20000, "--extra", extra],
        [("NevraRT", bad_parse), ("EvrRT", bad_text)],
        lambda e, r: (f"{e['event']}:{s_(e.get('text', e.get('op','')))}") if e else "?",
        sample_kinds=("NevraRT", "EvrRT", "CtRT"))
    rt = [e for e in events if e["event"] in ("NevraRT", "EvrRT")]
    ck.evaluations = len(events)
    ck.nontrivial = len({tuple(e["text"]) for e in rt if 45 in e["x"].get("n", []) or e["x"]["e"]})
    ck.rule = ("all NEVRA tuples with name <= 2 (3 thorough) over {a,1,-,.}, epoch in {'',0,7,12}, version <= 2 over "
               "{1,.,a,~,^}, release <= 2 over {1,.,a}, arch in {x,x86_64,noarch}; the asset NEVRAs; all five "
               "compression types, in the harness's build (all compressors) and in a build without any optional feature; seeded arbitrary strings for the no-panic part; non-trivial = distinct texts "
               "whose name contains '-' or which carry an epoch")
    ck.finish()


# ------------------------------------------------------------------------------------ C17
TRACE_MODULE["C17"] = "Trace_C17"


@prop("C17")
def c17(ck):
    binary = vlib.build_harness()
    ck.add_tlc(vlib.mc("MC_BuilderArgs", "MC_BuilderArgs.cfg", ck.scratch, workers=4))
    thorough = ck.tier == "thorough"
    def to_panic(e):
        e["outcome"] = "panic"
    def must_err_ok(e):
        e["dest"] = [47, 97, 47, 46, 46]      # "/a/.." reported as built successfully
        e.pop("i", None)
        e["outcome"] = "ok"
    events = stateless_check(
        ck, binary, "c17", "Trace_C17",
        ["--maxlen", 10 if thorough else 6, "--capstok", 5 if thorough else 3, "--meta", 20000 if thorough else 300],
        [("Dest", to_panic), ("Dest", must_err_ok), ("Level", to_panic), ("CapsArg", to_panic)],
        lambda e, r: (f"Dest:{s_(e['dest'])}" if e["event"] == "Dest" else
                      f"Level:{e['kind']}:{e['level']}" if e["event"] == "Level" else
                      f"CapsArg:{s_(e['text'])}" if e["event"] == "CapsArg" else f"{e['event']}:{e.get('fields')}") if e else "?",
        sample_kinds=("Dest", "Level", "CapsArg", "Meta"))
    ck.evaluations = len(events)
    ck.nontrivial = len({(e["event"], json.dumps(e.get("dest", e.get("text", [e.get("kind"), e.get("level")]))))
                         for e in events if e["outcome"] == "err"})
    ck.extra["outcomes"] = {f"{k}:{o}": sum(1 for e in events if e["event"] == k and e["outcome"] == o)
                            for k in ("Dest", "CapsArg", "Level", "Meta") for o in ("ok", "err")}
    ck.rule = ("all destination strings over {/ . a b} up to length 6 (10 thorough) plus longer hostile ones; all "
               "capability texts of <= 3 (4) tokens through FileOptions::caps + build; every compression type with "
               "levels across and beyond its range (one child process per case); seeded metadata strings; "
               "non-trivial = distinct arguments that must be / were rejected with an error")
    ck.finish()


# ------------------------------------------------------------------------------------ Pkg-based checks
def _first(events, pred, what):
    e = next((e for e in events if pred(e)), None)
    if e is None:
        raise ToolError(f"no event suitable for the {what} canary")
    return copy.deepcopy(e)


def pkg_canaries(events):
    """Corrupted copies of recorded observations, one per clause of ObservePackage."""
    out = []
    acc = lambda e: e["event"] == "Pkg" and e.get("accepted")
    c = _first(events, acc, "C01")
    c["diff"] = c["diff"] + [[50, 1]]              # a lead byte came out different
    out.append(("C01:", c))
    # (offsets of a parsed package are judged when it round-trips, so the copy must be of such an event; when the
    # library under test round-trips nothing, the in-memory canary below still shows the binding)
    rt = lambda e: (acc(e) and e.get("written_len") == e["input_len"] and not e.get("diff") and e.get("tail_equal")
                    and e.get("reparsed_equal") and e.get("rewritten_equal"))
    if any(rt(e) for e in events):
        c = _first(events, rt, "C16")
        c["off"]["hdr"] += 8
        out.append(("C16:", c))
    c = _first(events, lambda e: acc(e) and "off_mem" in e, "C16 (in-memory offsets)") if any("off_mem" in e for e in events) else None
    if c:
        c["off_mem"]["payload"] -= 16
        out.append(("C16:", c))
    if any(acc(e) and e.get("gets") for e in events):
        c = _first(events, lambda e: acc(e) and e.get("gets") and any(g["acc"] == "get_name" and "ok" in g["res"] for g in e["gets"]), "C05")
        for g in c["gets"]:
            if g["acc"] == "get_name":
                g["res"]["ok"] = g["res"]["ok"] + [120]
        out.append(("C05:get_name", c))
    if any(acc(e) and e.get("emitted") for e in events):
        c = _first(events, lambda e: acc(e) and e.get("emitted"), "C09")
        # give the second index entry of the main header the illegal data type 0
        h = c["off"]["hdr"]
        p = h + 16 + 16 + 4 + 3
        c["input"][p] = 0
        out.append(("C09:", c))
        if any("dig" in e for e in events):
            c = _first(events, lambda e: acc(e) and e.get("emitted") and "dig" in e, "C08")
            c["dig"]["payload_alt"]["calc"] = "0" * 64
            out.append(("C08:", c))
    return out


def run_pkg(ck, binary, hargs, own, gen_cfg=None, shards=14, timeout=3000, tag="pkg"):
    """Run the `pkg` scenario, validate with Trace_Pkg; rejects labelled with one of the `own`
    prefixes are violations of this check, `Panic` events are C04's concern (counted only)."""
    args = list(hargs)
    if gen_cfg:
        cases = ck.scratch / f"{tag}_cases.ndjson"
        r = vlib.gen_cases("Gen_Hdr", gen_cfg, ck.scratch, cases)
        ck.add_tlc(r)
        args += ["--cases", cases]
    tr = ck.scratch / f"{tag}.ndjson"
    vlib.run_harness(binary, ["pkg", "--out", tr, "--seed", ck.seed, "--tier", ck.tier] + args, timeout=timeout)
    events = read_ndjson(tr)
    panics = [e for e in events if e["event"] == "Panic"]
    events = [e for e in events if e["event"] != "Panic"]
    by_id = {e["id"]: e for e in events}
    nid = max(by_id) + 1
    canaries = {}
    for label, c in pkg_canaries(events):
        if not any(label.startswith(o) or o.startswith(label[:4]) for o in own):
            continue
        c["id"] = nid
        canaries[nid] = label
        nid += 1
        events.insert(0, c)
    write_ndjson(tr, events)
    v = vlib.validate_trace("Trace_Pkg", "Trace_Pkg.cfg", ck.scratch, tr, shards=shards, timeout=timeout)
    ck.add_validation(v)
    rejected = {r["id"]: r for r in v["rejects"]}
    for cid, label in canaries.items():
        r = rejected.get(cid)
        if r is None or not any(w.startswith(label[:4]) for w in r["why"]):
            raise ToolError(f"canary for {label} was accepted by Trace_Pkg - binding not effective ({r})")
    ck.canaries += len(canaries)
    other = {}
    for r in v["rejects"]:
        if r["id"] in canaries:
            continue
        ev = by_id.get(r["id"])
        for w in r["why"]:
            if any(w.startswith(o) for o in own):
                small = dict(ev)
                if len(small.get("input", [])) > 600:
                    small["input"] = small["input"][:600] + ["..."]
                small.pop("gets", None)
                ck.violation(f"{w}:{ev.get('origin')}", w, small)
            else:
                other[w[:3]] = other.get(w[:3], 0) + 1
    if other:
        log(f"  rejects belonging to other properties (reported by their own checks): {other}")
    real = [e for e in events if e["id"] not in canaries]
    ck.extra.setdefault("panics_seen_belonging_to_C04", 0)
    ck.extra["panics_seen_belonging_to_C04"] += len(panics)
    return real


def origin_kind(e):
    return str(e.get("origin", "")).split(":")[0]


def pkg_stats(ck, events):
    kinds = {}
    for e in events:
        k = origin_kind(e) + (":accepted" if e.get("accepted") else ":rejected")
        kinds[k] = kinds.get(k, 0) + 1
    ck.extra["observations"] = kinds
    return kinds


TRACE_MODULE.update({"C01": "Trace_Pkg", "C16": "Trace_Pkg", "C09": "Trace_Pkg", "C05": "Trace_Pkg"})


@prop("C01")
def c01(ck):
    binary = vlib.build_harness()
    thorough = ck.tier == "thorough"
    events = run_pkg(ck, binary, ["--families", "assets,built,mutants,gen,slack", "--n", 60 if thorough else 15,
                                  "--mutants", 60000 if thorough else 1500, "--gets", "0",
                                  "--maxbytes", 400000 if thorough else 65536],
                     own=("C01:",), gen_cfg="Gen_Hdr_thorough.cfg" if thorough else "Gen_Hdr_quick.cfg")
    k = pkg_stats(ck, events)
    acc = [e for e in events if e.get("accepted")]
    ck.evaluations = len(events)
    ck.nontrivial = len({(origin_kind(e), e["input_len"], len(e["diff"]), tuple(e["input"][96:128])) for e in acc})
    for e in acc[:1] + [e for e in acc if e["diff"]][:2]:
        ck.samples.append({"origin": e["origin"], "input_len": e["input_len"], "diff": e["diff"], "off": e["off"]})
    ck.rule = ("every byte string handed to Package::parse: repository assets, packages built / signed / cleared by "
               "the library, seeded structure-aware mutants of small packages, and hand-encoded packages enumerated "
               "by TLC from the format model (layout grid, raw entries with hostile fields, intro / lead / padding "
               "variants); non-trivial = distinct accepted inputs (by origin family, length, written difference and "
               "signature intro)")
    ck.assumptions.append("written bytes are compared with the input by the harness byte-wise (diff positions); where "
                          "the difference may lie is computed by the specification from the input's intro fields")
    ck.finish()


@prop("C16")
def c16(ck):
    binary = vlib.build_harness()
    thorough = ck.tier == "thorough"
    ck.add_tlc(vlib.mc("MC_Layout", "MC_Layout.cfg", ck.scratch, workers=4))
    # the same algebra for ALL entry counts and store sizes (unbounded integers), discharged by Apalache
    vlib.apalache("LayoutInd", "Inv", ck.scratch)
    ck.extra["unbounded_lemma"] = "LayoutInd!Inv (Increasing, Aligned, Unique padding, mode-word algebra) discharged by Apalache for all naturals"
    events = run_pkg(ck, binary, ["--families", "assets,built,gen,mutants,slack", "--n", 300 if thorough else 24,
                                  "--mutants", 20000 if thorough else 600, "--gets", "0",
                                  "--maxbytes", 400000 if thorough else 65536],
                     own=("C16:",), gen_cfg="Gen_Hdr_thorough.cfg" if thorough else "Gen_Hdr_quick.cfg")
    pkg_stats(ck, events)
    acc = [e for e in events if e.get("accepted")]
    ck.evaluations = len(acc) + sum(1 for e in acc if "off_mem" in e)
    ck.nontrivial = len({(e["off"]["hdr"], e["off"]["payload"] - e["off"]["hdr"]) for e in acc})
    ck.extra["sig_store_residues_mod_8"] = sorted({(e["off"]["hdr"] - 96) % 8 for e in acc})
    for e in acc[:2] + [e for e in acc if "off_mem" in e][:2]:
        ck.samples.append({"origin": e["origin"], "off": e["off"], "off_mem": e.get("off_mem"), "input_len": e["input_len"], "content_len": e["content_len"]})
    ck.rule = ("offsets reported by parsed packages and by in-memory packages (built, signed, cleared, after the public "
               "Header::clear) against the layout the specification derives from the written bytes' intro fields; "
               "non-trivial = distinct (header offset, header length) pairs")
    ck.finish()


@prop("C05")
def c05(ck):
    binary = vlib.build_harness()
    thorough = ck.tier == "thorough"
    events = run_pkg(ck, binary, ["--families", "assets,built,gen", "--n", 60 if thorough else 15, "--gets", "1",
                                  "--maxbytes", 400000 if thorough else 20000],
                     own=("C05:",), gen_cfg="Gen_Hdr_thorough.cfg" if thorough else "Gen_Hdr_quick.cfg")
    pkg_stats(ck, events)
    # the specification's own round trip and the non-vacuity of the loading rules (incl. dribble headers)
    ck.add_tlc(vlib.mc("MC_HeaderFormat", "MC_HeaderFormat_thorough.cfg" if thorough else "MC_HeaderFormat_quick.cfg",
                       ck.scratch, workers=8 if thorough else 4, timeout=1800))
    with_gets = [e for e in events if e.get("gets")]
    ck.evaluations = sum(len(e["gets"]) for e in with_gets)
    ck.nontrivial = len({(g["acc"], g.get("tag"), json.dumps(g["res"])[:200]) for e in with_gets for g in e["gets"]})
    ck.extra["accessor_outcomes"] = {"ok": sum(1 for e in with_gets for g in e["gets"] if "ok" in g["res"]),
                                     "err": sum(1 for e in with_gets for g in e["gets"] if "err" in g["res"])}
    for e in with_gets[:1] + [e for e in with_gets if origin_kind(e) == "gen"][:2]:
        ck.samples.append({"origin": e["origin"], "gets": e["gets"][:4]})
    ck.rule = ("every metadata accessor and Header::get_entry_data_as_* on well-formed headers (by rpm's own header "
               "rules, evaluated by the specification): repository assets, built packages, and TLC-enumerated typed "
               "headers - each accessor tag with each of the 9 data types and counts 1..3, tag triples with members "
               "absent / wrongly typed, in- and out-of-range directory indexes, multi-locale i18n, 32/64-bit sizes; "
               "non-trivial = distinct (accessor, result)")
    ck.assumptions.append("string results are compared exactly when the stored bytes are valid UTF-8, otherwise on their ASCII part")
    ck.finish()


@prop("C09")
def c09(ck):
    binary = vlib.build_harness()
    thorough = ck.tier == "thorough"
    events = run_pkg(ck, binary, ["--families", "assets,built,slack", "--n", 400 if thorough else 80, "--gets", "0",
                                  "--maxbytes", 400000 if thorough else 65536],
                     own=("C09:",))
    pkg_stats(ck, events)
    # the rules themselves, on headers built inside the model: encoder output passes, each named malformation is refused
    ck.add_tlc(vlib.mc("MC_HeaderFormat", "MC_HeaderFormat_thorough.cfg" if thorough else "MC_HeaderFormat_quick.cfg",
                       ck.scratch, workers=8 if thorough else 4, timeout=1800))
    em = [e for e in events if e.get("emitted")]
    ck.evaluations = len(em)
    ck.nontrivial = len({(e["off"]["hdr"], e["off"]["payload"]) for e in em})
    for e in em[:3]:
        ck.samples.append({"origin": e["origin"], "off": e["off"], "input_len": e["input_len"]})
    ck.rule = ("every package emitted by the builder and signer in this run (seeded random configurations, signed and "
               "cleared variants) must pass rpm's header-loading rules for lead, signature header (incl. padding) and "
               "main header as transcribed in spec/HeaderFormat.tla; the same rules accept all repository assets "
               "(self-test against an over-strict transcription); non-trivial = distinct layouts")
    # payload part: the archive of every emitted package against the cpio model (order, names, sizes, modes,
    # alignment, trailer, compression magic)
    files = run_files(ck, binary, ("C09:",), ["--n", 300 if thorough else 40, "--stripped", 20 if thorough else 4], gen=False, tag="c09files")
    emf = [e for e in files if e.get("emitted")]
    ck.evaluations += len(emf)
    ck.nontrivial += len({(e["compressor"], len(e["ents"]), tuple(x.get("size") for x in e["ents"])) for e in emf})
    ck.extra["archives_checked"] = len(emf)
    ck.extra["compressors"] = sorted({e["compressor"] for e in emf})
    ck.finish()


# ------------------------------------------------------------------------------------ C03
TRACE_MODULE["C03"] = "Trace_C03"


@prop("C03")
def c03(ck):
    binary = vlib.build_harness()
    thorough = ck.tier == "thorough"
    ck.add_tlc(vlib.mc("MC_Digests", "MC_Digests.cfg", ck.scratch, workers=4))
    cases = ck.scratch / "digest_cases.ndjson"
    ck.add_tlc(vlib.gen_cases("Gen_Digests", "Gen_Digests.cfg", ck.scratch, cases))
    def to_ok(e):
        e["outcome"] = "ok"
    def to_err(e):
        e["outcome"] = "DigestMismatchError"
    tr = ck.scratch / "c03.ndjson"
    vlib.run_harness(binary, ["c03", "--out", tr, "--seed", ck.seed, "--cases", cases, "--flips", 500000 if thorough else 2500])
    events = read_ndjson(tr)
    for e in events:
        if "case_d" in e and e.get("d") != e["case_d"]:
            raise ToolError(f"harness materialised a digest row wrongly: {e}")
    by_id = {e["id"]: e for e in events}
    nid = max(by_id) + 1
    canaries = []
    # (the copies are made of events whose recorded state really contains / really lacks a wrong digest, so that the
    # corrupted outcome is wrong whatever the library under test did)
    for pred, mut in ((lambda e: e["event"] == "Digest" and e["outcome"] == "DigestMismatchError" and "mismatch" in e["d"].values(), to_ok),
                      (lambda e: e["event"] == "Digest" and e["outcome"] == "ok" and e["d"]["sha256"] == "match" and e["d"]["payload"] in ("match", "absent"), to_err)):
        c = _first(events, pred, "C03")
        mut(c)
        c["id"] = nid
        canaries.append(nid)
        nid += 1
        events.insert(0, c)
    write_ndjson(tr, events)
    v = vlib.validate_trace("Trace_C03", "Trace_C03.cfg", ck.scratch, tr, shards=8)
    ck.add_validation(v)
    rej = ck.expect_canary(v["rejects"], canaries)
    add_rejects(ck, rej, by_id, lambda e, r: f"{e['event']}:{json.dumps(e.get('d'), sort_keys=True)}:{e.get('outcome')}" if e else "?")
    dig = [e for e in events if e["event"] == "Digest" and e["id"] not in canaries]
    ck.evaluations = len(dig)
    ck.nontrivial = len({(json.dumps(e["d"], sort_keys=True), e["outcome"]) for e in dig})
    ck.extra["outcomes"] = {}
    for e in dig:
        ck.extra["outcomes"][e["outcome"]] = ck.extra["outcomes"].get(e["outcome"], 0) + 1
    ck.extra["parse_errors_no_claim"] = sum(1 for e in events if e["event"] == "ParseErr")
    sample_events(ck, dig, {"Digest"}, per_kind=3)
    ck.rule = ("the complete decision table {absent, wrongtype, match, mismatch}^3 x payload {absent, wrongtype, match, "
               "mismatch, empty} x algorithm {absent, wrongtype, sha256, other known, unknown} with the wrong byte "
               "first / middle / last, materialised on a hand-encoded package; plus single-bit flips of header and "
               "payload of intact assets and built packages with the digest state re-derived by the harness; "
               "non-trivial = distinct (digest state, outcome)")
    ck.assumptions += ["a digest is 'recorded' when its tag is present with its standard data type; a payload digest "
                       "only together with its algorithm tag", "hash functions collision-free; computed by sha2/sha1/md-5 directly"]
    ck.finish()


# ------------------------------------------------------------------------------------ C02
TRACE_MODULE["C02"] = "Trace_C02"


def lifecycle_walks(ck, binary, mode, nwalks):
    """Life-cycle walks (spec/Rpm.tla): sign / clear / re-parse / tamper sequences on real packages; every
    observation is replayed through the composed state machine, in the direction `mode`'s property demands."""
    ck.add_tlc(vlib.mc("MC_Rpm", "MC_Rpm.cfg", ck.scratch, workers=4))
    wtr = ck.scratch / f"walks_{mode}.ndjson"
    # tampering with the signature header itself (its recorded header digest, the signature packet) belongs to the
    # walks of C02 (no success on it) and C08 (a later sign / clear records the true digest again); C10 quantifies
    # over sign / clear / re-parse histories of valid packages only
    vlib.run_harness(binary, ["walk", "--out", wtr, "--seed", ck.seed, "--walks", nwalks,
                              "--sigtamper", 0 if mode == "C10" else 1], timeout=6000)
    wev = read_ndjson(wtr)
    wid = {e["id"]: e for e in wev}
    weps = episodes(wev)
    # canary: an observation that contradicts the model in the demanded direction
    def pick(ep):
        for i, x in enumerate(ep):
            if x["event"] != "Walk":
                continue
            o = x["obs"]
            if mode == "C02" and not o["digests_ok"]:
                return i, lambda y: y["obs"].__setitem__("digests_ok", True)
            if mode == "C08" and o["digests_ok"]:
                return i, lambda y: y["obs"].__setitem__("digests_ok", False)
            if mode == "C10" and any(o["verifies"].values()):
                return i, lambda y: [y["obs"]["verifies"].__setitem__(k, False) for k in y["obs"]["verifies"]]
        return None
    src = next(((ep, pick(ep)) for ep in weps if pick(ep) is not None), None)
    if src is None:
        raise ToolError(f"walks: no episode suitable for the {mode} canary")
    ep, (i, mut) = src
    wc = copy.deepcopy(ep[: i + 1])
    mut(wc[-1])
    for k, x in enumerate(wc):
        x["id"] = max(wid) + 1 + k
    write_ndjson(wtr, wc + wev)
    wv = vlib.validate_trace("Trace_Rpm", f"Trace_Rpm_{mode}.cfg", ck.scratch, wtr, shards=4)
    ck.add_validation(wv, traces=len(weps))
    wrej = ck.expect_canary(wv["rejects"], [wc[-1]["id"]])
    add_rejects(ck, wrej, wid, lambda e, r: f"Walk:{e.get('walk')}:{e.get('step')}:{e.get('op')}:{r.get('why')}" if e else "?")
    ck.extra.update(lifecycle_walks=len(weps), lifecycle_steps=sum(1 for e in wev if e["event"] == "Walk"))


@prop("C02")
def c02(ck):
    binary = vlib.build_harness()
    thorough = ck.tier == "thorough"
    ck.add_tlc(vlib.mc("MC_Signature", "MC_Signature.cfg", ck.scratch, workers=8, coverage=True))
    cases = ck.scratch / "sig_cases.ndjson"
    ck.add_tlc(vlib.gen_cases("Gen_Signature", "Gen_Signature.cfg", ck.scratch, cases))
    tr = ck.scratch / "c02.ndjson"
    vlib.run_harness(binary, ["c02", "--out", tr, "--seed", ck.seed, "--cases", cases,
                              "--flips", 60000 if thorough else 600, "--forgeries", 2500 if thorough else 40], timeout=3000)
    events = read_ndjson(tr)
    by_id = {e["id"]: e for e in events}
    nid = max(by_id) + 1
    # canaries: (1) an episode whose verifier rejected but which reports success, (2) one that reports success
    # without any consultation, (3) a tampered package reported as verifying
    eps, cur = [], []
    for e in events:
        if e.get("ep_start"):
            if cur:
                eps.append(cur)
            cur = []
        cur.append(e)
    if cur:
        eps.append(cur)
    def clone_ep(ep, mut):
        nonlocal nid
        out = copy.deepcopy(ep)
        mut(out)
        ids = []
        for x in out:
            x["id"] = nid
            ids.append(nid)
            nid += 1
        return out, ids
    can_events, can_ret_ids = [], []
    ep1 = next((ep for ep in eps if ep[0]["event"] == "Begin" and ep[-1].get("result") == "err"
                and any(x["event"] == "Consult" and x["verdict"] == "reject" for x in ep)), None)
    ep2 = next((ep for ep in eps if ep[0]["event"] == "Begin" and ep[-1].get("result") == "err"
                and not any(x["event"] == "Consult" for x in ep) and ep[0]["digests_ok"]), None)
    ep3 = next((ep for ep in eps if ep[0]["event"] == "Begin" and ep[-1].get("result") == "ok"
                and any(x["event"] == "Consult" for x in ep)), None)
    tam = next((ep for ep in eps if ep[0]["event"] == "Tampered" and ep[0]["value_changed"] and ep[0]["verify"] == "err"), None)
    if not (ep1 and ep2 and ep3 and tam):
        raise ToolError("C02: no suitable episodes for the canaries")
    for ep, mut in ((ep1, lambda o: o[-1].__setitem__("result", "ok")),
                    (ep2, lambda o: o[-1].__setitem__("result", "ok")),
                    (ep3, lambda o: [x.__setitem__("data", "0" * 64) for x in o if x["event"] == "Consult"][:1]),
                    (tam, lambda o: o[0].__setitem__("verify", "ok"))):
        out, ids = clone_ep(ep, mut)
        can_events += out
        can_ret_ids.append(ids[-1])
    events = can_events + events
    write_ndjson(tr, events)
    v = vlib.validate_trace("Trace_C02", "Trace_C02.cfg", ck.scratch, tr, shards=8)
    ck.add_validation(v, traces=len(eps))
    rej = ck.expect_canary(v["rejects"], can_ret_ids)
    by_case = {}
    cur_case = (None, 0)
    for e in events:
        if e.get("ep_start") and e.get("case") is not None:
            cur_case = (e["case"], e.get("perm", 0))
        if e.get("case") is not None and e["id"] in by_id:
            by_case.setdefault(cur_case if e["case"] == cur_case[0] else (e["case"], 0), []).append(e)
            e["_ep"] = cur_case if e["case"] == cur_case[0] else (e["case"], 0)
    for r in rej:
        e = by_id.get(r["id"])
        if e is None:
            continue
        if e["event"] in ("Tampered", "NoSignature", "WrongDigest"):
            ck.violation(f"{e['event']}:{e['key']}:{e['what']}", {"Tampered": "tampered package verified", "NoSignature": "verified without a valid signature",
                                                                 "WrongDigest": "verified although a recorded digest is wrong"}[e["event"]], e)
        else:
            ep = [{k: v for k, v in x.items() if k != "_ep"} for x in by_case.get(e.get("_ep"), [e])]
            shape = ep[0].get("shape")
            ck.violation(f"Verify:{json.dumps(shape, sort_keys=True)}:order{ep[0].get('perm', 0)}", f"{e['event']} {e.get('result', '')}", ep)
    lifecycle_walks(ck, binary, "C02", 1500 if thorough else 40)
    begins = [e for e in events if e["event"] == "Begin" and e["id"] in by_id]
    rets = [e for e in events if e["event"] == "Return" and e["id"] in by_id]
    tams = [e for e in events if e["event"] == "Tampered" and e["id"] in by_id]
    ck.evaluations = len(begins) + len(tams)
    ck.nontrivial = len({json.dumps(e["shape"], sort_keys=True) for e in begins}) + \
        sum(1 for e in tams if e["value_changed"])
    ck.extra.update(returns_ok=sum(1 for e in rets if e["result"] == "ok"), returns_err=sum(1 for e in rets if e["result"] == "err"),
                    consultations=sum(1 for e in events if e["event"] == "Consult"),
                    tampered_changed=sum(1 for e in tams if e["value_changed"]),
                    forgeries_with_repaired_digests=sum(1 for e in tams if "digests_repaired" in e),
                    carriers_skipped=[f"{e.get('key')}: {e.get('why')}" for e in events if e["event"] == "CarrierSkipped"])
    ck.samples += [eps[1][:4], tams[1] if len(tams) > 1 else None]
    ck.rule = ("every signature-header shape of Gen_Signature (OPENPGP absent / wrong type / 0..2 entries good, malformed "
               "base64 or shorter than five bytes; RSA, DSA, PGP absent / present / wrong type / short) x verdict pattern "
               "x header digest match / mismatch / absent, through verify_signature with a recording Verifying "
               "implementation; packages signed with the RSA-4096, protected RSA-3072, Ed25519 and ECDSA keys, tampered by "
               "single-bit flips of header+payload and by digest-consistent forgeries, verified with the real pgp "
               "Verifier; non-trivial = distinct shapes + tamperings that changed the parsed value")
    ck.assumptions += ["cryptography is perfect: the pgp crate's verdict is the oracle for real keys",
                       "data handed to the verifier is identified by its SHA-256"]
    ck.finish()


# ------------------------------------------------------------------------------------ C10
TRACE_MODULE["C10"] = "Trace_C10"


@prop("C10")
def c10(ck):
    binary = vlib.build_harness()
    thorough = ck.tier == "thorough"
    ck.add_tlc(vlib.mc("MC_SignHistory", "MC_SignHistory.cfg", ck.scratch, workers=8))
    cases = ck.scratch / "hist_cases.ndjson"
    ck.add_tlc(vlib.gen_cases("Gen_SignHistory", "Gen_SignHistory_thorough.cfg" if thorough else "Gen_SignHistory_quick.cfg",
                              ck.scratch, cases, timeout=1800))
    tr = ck.scratch / "c10.ndjson"
    vlib.run_harness(binary, ["c10", "--out", tr, "--seed", ck.seed, "--cases", cases], timeout=6000)
    events = read_ndjson(tr)
    by_id = {e["id"]: e for e in events}
    # the expectation printed by the specification with each case must be what the trace spec demands;
    # cross-check cheaply here (same module, but guards against a generator / validator drift)
    nid = max(by_id) + 1
    canaries = []
    def clone_ep(pred, mut):
        nonlocal nid
        # one whole episode (Start + its Steps), last step corrupted
        idx = next(i for i, e in enumerate(events) if e["event"] == "Start")
        ep = [events[idx]]
        j = idx + 1
        while j < len(events) and events[j]["event"] == "Step":
            ep.append(events[j])
            j += 1
        out = copy.deepcopy(ep)
        mut(out)
        for x in out:
            x["id"] = nid
            nid += 1
        canaries.append(out[-1]["id"])
        return out
    extra = []
    extra += clone_ep(None, lambda o: o[-1]["obs"]["verifies"].__setitem__("rsa4096", not o[-1]["obs"]["verifies"]["rsa4096"]))
    extra += clone_ep(None, lambda o: o[-1]["obs"].__setitem__("payload_same", False))
    extra += clone_ep(None, lambda o: o[-1]["obs"].__setitem__("signed_by", "none-reported") if o[-1]["op"] == "sign" else o[-1]["obs"].__setitem__("digests_ok", False))
    events = extra + events
    write_ndjson(tr, events)
    v = vlib.validate_trace("Trace_C10", "Trace_C10.cfg", ck.scratch, tr, shards=8)
    neps = sum(1 for e in events if e["event"] == "Start")
    ck.add_validation(v, traces=neps)
    rej = ck.expect_canary(v["rejects"], canaries)
    add_rejects(ck, rej, by_id, lambda e, r: f"{e.get('pkg')}:{e.get('path', 'start')}" if e else "?")
    lifecycle_walks(ck, binary, "C10", 1200 if thorough else 40)
    steps = [e for e in events if e["event"] == "Step" and e["id"] in by_id]
    ck.evaluations = len(steps)
    ck.nontrivial = len({(e["pkg"], e["path"]) for e in steps})
    ck.extra.update(histories=neps - 3, distinct_tree_nodes=ck.nontrivial,
                    sign_steps=len({(e["pkg"], e["path"]) for e in steps if e["op"] == "sign"}))
    ck.samples += [steps[0], steps[len(steps) // 2]]
    ck.rule = ("all operation sequences of the maximal length (3 quick, 4 thorough; every shorter history is a prefix) "
               "over {sign with RSA-4096 / protected RSA-3072 / Ed25519 / ECDSA-P256, clear, write+re-parse} from three "
               "built packages (without files, with files, with a main header of several tens of KiB) and four foreign "
               "assets (main headers from 1 KiB to 147 KiB); after every step all four real "
               "verifiers, signature_key_ids, verify_digests and byte-identity of header and payload are observed; "
               "non-trivial = distinct prefix-tree nodes")
    ck.assumptions.append("expected key ids are the primary key ids of the public key files, read with the pgp crate directly")
    ck.finish()


# ------------------------------------------------------------------------------------ C14
TRACE_MODULE["C14"] = "Trace_C14"


def episodes(events):
    eps, cur = [], []
    for e in events:
        if e.get("ep_start"):
            if cur:
                eps.append(cur)
            cur = []
        cur.append(e)
    if cur:
        eps.append(cur)
    return eps


@prop("C14")
def c14(ck):
    binary = vlib.build_harness()
    ck.add_tlc(vlib.mc("MC_IoSink", "MC_IoSink_write_all.cfg", ck.scratch, workers=4))
    # the specification must tell the two writer designs apart: the single-write() design violates Safe
    for design in ("single", "okinterrupt"):
        r = vlib.tlc("MC_IoSink", f"MC_IoSink_{design}.cfg", ck.scratch, workers=1, timeout=300)
        if r["ok"] or "Invariant Safe is violated" not in r["out"]:
            raise ToolError(f"MC_IoSink_{design}: the specification does not refute this writer design")
    ck.extra["design_counterexamples"] = ("a single write() per segment, and leaving the loop with Ok when the sink reports "
                                          "Interrupted, each violate Safe (as expected)")
    # the same design for a canonical string of ANY length and any number of sink responses: an inductive invariant
    # discharged by Apalache (initiation, consecution, IndInv => Safe), and the single-write design refuted
    from concurrent.futures import ThreadPoolExecutor
    jobs = [dict(inv="IndInv"), dict(inv="IndInv", init="IndInit", length=1), dict(inv="Safe", init="IndInit"),
            dict(inv="IndInv", init="IndInit", next_="NextSingle", length=1, expect_violation=True)]
    with ThreadPoolExecutor(4) as ex:
        for f in [ex.submit(vlib.apalache, "IoSinkInd", scratch=ck.scratch, **j) for j in jobs]:
            f.result()
    ck.extra["unbounded_lemma"] = ("IoSinkInd!IndInv is inductive for the write_all design and implies Safe for every length L "
                                   "(Apalache); the single-write design breaks consecution")
    tr = ck.scratch / "c14.ndjson"
    vlib.run_harness(binary, ["c14", "--out", tr, "--seed", ck.seed, "--tier", ck.tier], timeout=3000)
    events = read_ndjson(tr)
    by_id = {e["id"]: e for e in events}
    nid = max(by_id) + 1
    canaries = []
    extra = []
    def one(pred, mut):
        nonlocal nid
        try:
            c = _first(events, pred, "C14")
        except ToolError:
            return          # (an implementation that is already failing everywhere offers no such event)
        mut(c)
        c["id"] = nid
        c.pop("ep_start", None)
        canaries.append(nid)
        nid += 1
        extra.append(c)
    one(lambda e: e["event"] == "Run" and e["result"] == "err" and e["emitted_len"] < e["canonical_len"], lambda c: c.__setitem__("result", "ok"))
    one(lambda e: e["event"] == "Run", lambda c: c.__setitem__("all_at_pos", False))
    one(lambda e: e["event"] == "ParseTruncated" and e["at"] < e["payload_at"], lambda c: c.__setitem__("result", "ok"))
    one(lambda e: e["event"] == "ParseChunked", lambda c: c.__setitem__("same_as_whole", False))
    one(lambda e: e["event"] == "HashRun", lambda c: c.__setitem__("hashed", "0" * 64))
    # a detailed episode in which one call does not continue the canonical bytes, and one that returns ok early
    eps = [ep for ep in episodes(events) if ep[0]["event"] == "Begin"]
    def ep_clone(ep, mut):
        nonlocal nid
        out = copy.deepcopy([x for x in ep if x["event"] in ("Begin", "Write", "Return")])
        target = mut(out)
        for x in out:
            x["id"] = nid
            nid += 1
        canaries.append(target["id"])
        return out
    def bad_call(o):
        w = [x for x in o if x["event"] == "Write" and x["len"] > 0][3]
        w["at_pos"] = False
        return w
    def early_ok(o):
        cut = [i for i, x in enumerate(o) if x["event"] == "Write"][5]
        del o[cut + 1:-1]
        o[-1]["result"] = "ok"
        o[-1]["emitted_len"] = 0
        return o[-1]
    ep = next((ep for ep in eps if ep[-1]["event"] == "Return" and ep[-1]["result"] == "ok"
               and sum(1 for x in ep if x["event"] == "Write" and x["len"] > 0) > 8), None)
    if ep is not None:      # (absent only when the implementation under test is already failing everywhere)
        extra = ep_clone(ep, bad_call) + ep_clone(ep, early_ok) + extra
    if len(canaries) < 3:
        raise ToolError("C14: too few canaries could be constructed")
    else:
        ep = eps[0]
    events = extra + events
    write_ndjson(tr, events)
    v = vlib.validate_trace("Trace_C14", "Trace_C14.cfg", ck.scratch, tr, shards=8)
    ck.add_validation(v, traces=len(eps))
    rej = ck.expect_canary(v["rejects"], canaries)
    add_rejects(ck, rej, by_id, lambda e, r: f"{e['event']}:{e.get('pkg', '')}:{e.get('mode', e.get('at', e.get('chunk', '')))}:{e.get('what', '')}" if e else "?")
    real = [e for e in events if e["id"] in by_id]
    runs = [e for e in real if e["event"] == "Run"]
    ck.evaluations = len(runs) + sum(1 for e in real if e["event"] in ("ParseTruncated", "ParseChunked", "HashRun")) + len(eps)
    ck.nontrivial = len({(e["pkg"], e["mode"], e["what"]) for e in runs}) + len({(e["pkg"], e["at"]) for e in real if e["event"] == "ParseTruncated"})
    ck.extra.update(fault_offsets=sum(1 for e in runs if e["mode"].startswith(("fail_at", "zero_at"))),
                    chunked_runs=sum(1 for e in runs if not e["mode"].startswith(("fail_at", "zero_at"))),
                    detailed_episodes=len(eps), write_calls_validated=sum(1 for e in real if e["event"] == "Write"),
                    err_without_sink_failure=sum(1 for e in runs if e["result"] == "err" and not e["sink_failed"]))
    ck.samples += [runs[0], next(e for e in runs if e["mode"].startswith("chunk")), ep[:3]]
    ck.rule = ("Package::write / PackageMetadata::write of built packages and small assets into scripted sinks: a failure "
               "(and a zero-length acceptance) at every offset of the metadata and a stride through the payload, chunk "
               "families {1,2,3,5,7,16,4096, seeded random}, interleaved Interrupted; per-call episodes validated step by "
               "step; parsing from 1/2/3/7/16-byte and random chunk sources and truncation at every metadata offset; "
               "the public Sha256Writer in front of short-accepting sinks; non-trivial = distinct (package, sink script)")
    ck.finish()


# ------------------------------------------------------------------------------------ C06
TRACE_MODULE["C06"] = "Trace_C06"


@prop("C06")
def c06(ck):
    binary = vlib.build_harness()
    thorough = ck.tier == "thorough"
    ck.add_tlc(vlib.mc("MC_Builder", "MC_Builder.cfg", ck.scratch, workers=4))
    def set_get(acc, f):
        def m(e):
            g = next(g for g in e["gets"] if g["acc"] == acc)
            f(g)
        return m
    def bad_file(e):
        e["entries"]["ok"][0]["mode"] ^= 0o100
    def swap_deps(e):
        # two user-supplied dependencies of one kind come back in the wrong order
        pass
    events = stateless_check(
        ck, binary, "c06", "Trace_C06", ["--n", 12000 if thorough else 250],
        [("Build", set_get("get_name", lambda g: g["res"]["ok"].append(33))),
         ("Build", set_get("get_changelog_entries", lambda g: g["res"].__setitem__("ok", g["res"]["ok"][::-1] + [{"a": [1], "b": [0, 0], "c": []}]))),
         ("Build", lambda e: e["cfg"].__setitem__("packager", {"some": [110, 111, 98, 111, 100, 121]})),
         ("Build", lambda e: e["cfg"]["scripts"].append({"kind": "verify", "script": [120], "flags": {"none": True}, "prog": {"none": True}}) if not any(s["kind"] == "verify" for s in e["cfg"]["scripts"]) else e["cfg"]["scripts"][0].__setitem__("script", [1, 2, 3])),
         ("Build", lambda e: e["cfg"]["deps"].append({"kind": "conflicts", "a": [122, 122], "b": [0, 8], "c": [57]}))],
        lambda e, r: f"Build:{e.get('i')}:{','.join(r['why']) if isinstance(r.get('why'), list) else r.get('why')}" if e else "?",
        shards=8)
    builds = [e for e in events if e["event"] == "Build"]
    # beyond the property: what the builder adds on its own account (spec/BuilderDerived.tla).  Disagreements are
    # notes in the evidence - no listed property speaks about these values - but the binding is shown by a canary.
    real = [e for e in builds if "derived" in e]
    if real:
        c = copy.deepcopy(real[0]); c["id"] = max(e["id"] for e in events) + 1000
        c["derived"]["provides"] = c["derived"]["provides"][:-1]
        dtr = ck.scratch / "derived.ndjson"
        write_ndjson(dtr, [c] + real)
        dv = vlib.validate_trace("Trace_Derived", "Trace_Derived.cfg", ck.scratch, dtr, shards=8)
        ck.add_validation(dv)
        if not any(r["id"] == c["id"] for r in dv["rejects"]):
            raise ToolError("canary for the derived-metadata model was accepted by Trace_Derived")
        ck.canaries += 1
        notes = {}
        for r in dv["rejects"]:
            if r["id"] != c["id"]:
                for w in (r["why"] if isinstance(r["why"], list) else [r["why"]]):
                    notes[w] = notes.get(w, 0) + 1
        ck.extra["derived_metadata_model"] = {"builds_checked": len(real), "clauses": 12, "disagreements (notes, not violations)": notes}
        if notes:
            log(f"  derived-metadata notes (not violations): {notes}")
    # a canary on file entries needs an event with files
    ck.evaluations = len(builds)
    ck.nontrivial = len({json.dumps(e["cfg"], sort_keys=True)[:4000] + str(len(e["files"])) for e in builds})
    ck.extra.update(configs_with_files=sum(1 for e in builds if e["files"]), files_total=sum(len(e["files"]) for e in builds),
                    signed=sum(1 for e in builds if "some" in e["cfg"]["signer"]),
                    build_errors=sum(1 for e in events if e["event"] == "BuildErr"),
                    root_level_files=sum(1 for e in builds for f in e["files"] if bytes(f["dest"]).lstrip(b".").count(b"/") == 1))
    ck.samples.append({k: builds[0][k] for k in ("cfg", "files")})
    ck.rule = ("seeded random builder configurations over the quantifier's domain (every optional field supplied or not; "
               "strings from a pool incl. empty, multi-line, multi-byte, long; 9 scriptlets with optional flags / "
               "interpreter; the 8 dependency kinds; changelog; 0..6 files at depths 0..3 incl. directly under '/', both "
               "destination styles, explicit and inherited modes incl. symlinks and directories, every flag setter, "
               "capabilities; all compression types; signed and unsigned): built, written, re-parsed, read through every "
               "accessor; non-trivial = distinct configurations")
    ck.assumptions += ["only supplied values are constrained; defaults for unsupplied fields are not",
                       "an empty scriptlet interpreter list counts as not supplied"]
    ck.finish()


# ------------------------------------------------------------------------------------ C11
TRACE_MODULE["C11"] = "Trace_C11"


@prop("C11")
def c11(ck):
    binary = vlib.build_harness()
    thorough = ck.tier == "thorough"
    ck.add_tlc(vlib.mc("MC_Determinism", "MC_Determinism_ordered.cfg", ck.scratch, workers=1))
    # the specification must refute each defective design: iteration in hash-set order, directories in hand-over
    # order, a zoned date-time read as wall-clock time, modification times recorded without clamping
    for design, what in (("hashset", "DetAction is violated"), ("insertion", "DetAction is violated"),
                         ("localtime", "ClampInv is violated"), ("rawmtime", "ClampInv is violated")):
        r = vlib.tlc("MC_Determinism", f"MC_Determinism_{design}.cfg", ck.scratch, workers=1, timeout=300)
        if r["ok"] or what not in r["out"]:
            raise ToolError(f"MC_Determinism_{design}: the specification does not refute this design")
    ck.extra["design_counterexamples"] = ("hash-set iteration order and hand-over order violate DetAction; wall-clock reading of "
                                          "a zoned source date and unclamped mtimes violate ClampInv (as expected)")
    tr = ck.scratch / "c11.ndjson"
    vlib.run_harness(binary, ["c11", "--out", tr, "--seed", ck.seed, "--n", 600 if thorough else 24], timeout=6000)
    events = read_ndjson(tr)
    by_id = {e["id"]: e for e in events}
    nid = max(by_id) + 1
    runs = [e for e in events if e["event"] == "Run"]
    if not runs:
        raise ToolError("C11: no runs recorded")
    c1 = copy.deepcopy(runs[-1]); c1["bytes_sha256"] = "0" * 64; c1["id"] = nid
    c2 = copy.deepcopy(runs[-1]); c2["times"] = c2["times"] + [[24415, 0]]; c2["id"] = nid + 1   # 1 600 061 440 > source date
    events += [c1, c2]
    write_ndjson(tr, events)
    v = vlib.validate_trace("Trace_C11", "Trace_C11.cfg", ck.scratch, tr, shards=1)
    ck.add_validation(v, traces=len({e["cfg"] for e in runs}))
    rej = ck.expect_canary(v["rejects"], [nid, nid + 1])
    add_rejects(ck, rej, by_id, lambda e, r: f"{e.get('cfg')}:{r.get('why')}:{e.get('signed', '')}" if e else "?")
    ck.evaluations = len(runs)
    ck.nontrivial = len({e["cfg"] for e in runs})
    ck.extra.update(runs_per_configuration=6, processes="3 in-process + 3 child processes (different TZ, cwd, environment size)",
                    signed_configs=len({e["cfg"] for e in runs if e["signed"]}),
                    timestamps_checked=sum(len(e["times"]) for e in runs))
    ck.samples += runs[:2]
    ck.rule = ("seeded configurations with 2..6 distinct non-root users and groups, file mtimes on both sides of the source "
               "date, unsigned / Ed25519 / RSA-4096 signed, each built 3x in-process and in 3 freshly spawned processes; "
               "non-trivial = distinct configurations")
    ck.finish()


# ------------------------------------------------------------------------------------ C07 / C08 / C09 payload
TRACE_MODULE["C07"] = "Trace_C07"
TRACE_MODULE["C08"] = "Trace_C07"


def run_files(ck, binary, own, extra_args, gen=True, tag="c07"):
    """Run the `c07` scenario (payload iteration / archive structure / file digests) and validate with
    Trace_C07; rejects labelled with one of the `own` prefixes belong to the calling check."""
    args = ["c07", "--out", ck.scratch / f"{tag}.ndjson", "--seed", ck.seed, "--tier", ck.tier] + extra_args
    if gen:
        cases = ck.scratch / "cpio_cases.ndjson"
        ck.add_tlc(vlib.gen_cases("Gen_Cpio", "Gen_Cpio_thorough.cfg" if ck.tier == "thorough" else "Gen_Cpio_quick.cfg", ck.scratch, cases, timeout=1800))
        args += ["--cases", cases]
    tr = ck.scratch / f"{tag}.ndjson"
    vlib.run_harness(binary, args, timeout=6000)
    events = read_ndjson(tr)
    panics = [e for e in events if e["event"] == "Panic"]
    by_id = {e["id"]: e for e in events}
    nid = max(by_id) + 1
    canaries = {}
    def add(label, pred, mut):
        nonlocal nid
        c = _first(events, pred, label)
        mut(c)
        c["id"] = nid
        canaries[nid] = label
        nid += 1
        return c
    ok_iter = lambda e: e["event"] == "Files" and "ok" in e.get("iter", {}) and len(e["iter"]["ok"]) >= 2
    extra = []
    if any(o.startswith("C07") for o in own):
        extra.append(add("C07:", ok_iter, lambda c: c["iter"]["ok"][0].__setitem__("content_sha", "0" * 64)))
        def swap(c):
            a, b = c["iter"]["ok"][0], c["iter"]["ok"][1]
            a["path"], b["path"] = b["path"], a["path"]
        extra.append(add("C07:", lambda e: ok_iter(e) and e["iter"]["ok"][0]["path"] != e["iter"]["ok"][1]["path"], swap))
        extra.append(add("C07:", ok_iter, lambda c: c["iter"]["ok"].pop()))
    if any(o.startswith("C09") for o in own):
        extra.append(add("C09:", lambda e: ok_iter(e) and e.get("emitted"), lambda c: c["ents"][1].__setitem__("hdr_at", c["ents"][1]["hdr_at"] + 2)))
        extra.append(add("C09:", lambda e: ok_iter(e) and e.get("emitted") and e["compressor"] == "gzip", lambda c: c.__setitem__("magic", [80, 75, 3, 4, 0, 0])))
        extra.append(add("C09:", lambda e: ok_iter(e) and e.get("emitted"), lambda c: c["files"][0].__setitem__("mode", c["files"][0]["mode"] ^ 1)))
    if any(o.startswith("C08") for o in own):
        extra.append(add("C08:", lambda e: ok_iter(e) and e.get("emitted"), lambda c: c["files"][0].__setitem__("digest", "f" * 64)))
    for c in extra:
        c.pop("archive_bytes", None)
    events = extra + events
    write_ndjson(tr, events)
    v = vlib.validate_trace("Trace_C07", "Trace_C07.cfg", ck.scratch, tr, shards=12, timeout=3000)
    ck.add_validation(v)
    rejected = {r["id"]: r for r in v["rejects"]}
    for cid, label in canaries.items():
        r = rejected.get(cid)
        if r is None or not any(w.startswith(label[:4]) for w in r["why"]):
            raise ToolError(f"canary for {label} was accepted by Trace_C07 ({r})")
    ck.canaries += len(canaries)
    other = {}
    for r in v["rejects"]:
        if r["id"] in canaries:
            continue
        ev = by_id.get(r["id"])
        if ev is None:
            continue
        for w in r["why"]:
            if w.startswith("harness:"):
                raise ToolError(f"the harness's archive scanner disagrees with the specification's parse on {ev.get('origin')}")
            if any(w.startswith(o) for o in own):
                small = {k: x for k, x in ev.items() if k not in ("archive_bytes",)}
                ck.violation(f"{w}:{ev.get('origin')}", w, small)
            else:
                other[w[:3]] = other.get(w[:3], 0) + 1
    if other:
        log(f"  rejects belonging to other properties: {other}")
    ck.extra["panics_seen_belonging_to_C04"] = ck.extra.get("panics_seen_belonging_to_C04", 0) + len(panics)
    # a package the library itself emitted whose payload the harness cannot even decompress / scan is not a
    # well-formed archive (C09), cannot be iterated faithfully (C07), and holds no locatable content for the
    # recorded file digests to be the digests of (C08)
    for e in events:
        if e["id"] in by_id and e["event"] == "Undecodable" and origin_kind(e) in ("built", "random", "largefile"):
            if any(o.startswith(("C07", "C08", "C09")) for o in own):
                ck.violation(f"{own[0]}emitted archive undecodable ({e.get('what')}):{e.get('origin')}", "Undecodable", e)
    return [e for e in events if e["id"] in by_id and e["event"] == "Files"]


@prop("C07")
def c07(ck):
    binary = vlib.build_harness()
    ck.add_tlc(vlib.mc("MC_Cpio", "MC_Cpio.cfg", ck.scratch, workers=8, timeout=1800))
    files = run_files(ck, binary, ("C07:",), ["--n", 1500 if ck.tier == "thorough" else 40, "--stripped", 120 if ck.tier == "thorough" else 6])
    ck.evaluations = len(files)
    ck.nontrivial = len({(origin_kind(e), len(e["files"]), len(e["ents"]), e["compressor"], tuple(x.get("size") for x in e["ents"])) for e in files})
    kinds = {}
    for e in files:
        kinds[origin_kind(e)] = kinds.get(origin_kind(e), 0) + 1
    ck.extra.update(packages=kinds, items_yielded=sum(len(e["iter"].get("ok", [])) for e in files),
                    stripped_format_packages=sum(1 for e in files if any(x["kind"] == "stripped" for x in e["ents"])),
                    scanner_validated_against_spec_parse=sum(1 for e in files if "archive_bytes" in e))
    s = next(e for e in files if origin_kind(e) == "gen" and len(e["ents"]) > 2)
    ck.samples.append({k: s[k] for k in ("origin", "case", "files", "ents", "iter")})
    ck.rule = ("Package::files() on: TLC-enumerated foreign-style packages (1..3 files, every size 0..5, names covering every "
               "header-padding residue, every subset omitted from the archive, every archive order, newc and stripped "
               "entries); the repository assets; packages built with every compression type and level family and sizes 0, "
               "1..8, 4095..4097, 64 KiB, MiB-range (compressible and not), a 3000-byte name; random configurations; the "
               "large-file format through the verification hook; non-trivial = distinct archive shapes")
    ck.finish()


@prop("C08")
def c08(ck):
    binary = vlib.build_harness()
    thorough = ck.tier == "thorough"
    # (1) header SHA-256, payload digest, alternate (uncompressed) payload digest of built / signed / cleared packages
    events = run_pkg(ck, binary, ["--families", "built", "--n", 800 if thorough else 45, "--gets", "0"], own=("C08:",), tag="c08pkg")
    with_dig = [e for e in events if "dig" in e and e.get("emitted")]
    # (2) per-file digests and large / incompressible payloads for every codec
    files = run_files(ck, binary, ("C08:",), ["--n", 800 if thorough else 30, "--stripped", 40 if thorough else 3], gen=False, tag="c08files")
    # (3) the hashing writer in front of short-accepting sinks
    tr = ck.scratch / "c08hash.ndjson"
    vlib.run_harness(binary, ["c14", "--out", tr, "--seed", ck.seed, "--families", "hash"])
    hv = read_ndjson(tr)
    hid = {e["id"]: e for e in hv}
    c = copy.deepcopy(hv[0]); c["id"] = max(hid) + 1; c["hashed"] = "0" * 64
    write_ndjson(tr, [c] + hv)
    v = vlib.validate_trace("Trace_C14", "Trace_C14.cfg", ck.scratch, tr, shards=1)
    ck.add_validation(v)
    rej = ck.expect_canary(v["rejects"], [c["id"]])
    add_rejects(ck, rej, hid, lambda e, r: f"HashRun:{e.get('mode')}:{e.get('split')}" if e else "?")
    lifecycle_walks(ck, binary, "C08", 1200 if thorough else 40)
    ck.evaluations = len(with_dig) * 3 + sum(len(e["files"]) for e in files if e.get("emitted")) + len(hv)
    ck.nontrivial = len({e["dig"]["payload"]["calc"] for e in with_dig}) + len({f["digest"] for e in files for f in e["files"]}) + len({(e["mode"], e["split"]) for e in hv})
    ck.extra.update(packages_with_three_digests=len(with_dig), file_digests=sum(len(e["files"]) for e in files if e.get("emitted")),
                    hashing_writer_scripts=len(hv), compressors=sorted({e["dig"]["compressor"] for e in with_dig}))
    if with_dig:
        ck.samples.append({"origin": with_dig[0]["origin"], "dig": with_dig[0]["dig"]})
    ck.samples.append(hv[0])
    ck.rule = ("every package built / signed / cleared in the run: header SHA-256, payload SHA-256 and the digest of the "
               "uncompressed archive recomputed by the harness (own range finding, own decompression, sha2) over exactly the "
               "ranges the specification derives; every file digest against the archive entry's content; 1 MiB-range "
               "compressible and incompressible files for every codec; the public Sha256Writer in front of scripted "
               "short-accepting sinks; non-trivial = distinct digests compared")
    ck.finish()


# ------------------------------------------------------------------------------------ C12
TRACE_MODULE["C12"] = "Trace_C12"


@prop("C12")
def c12(ck):
    binary = vlib.build_harness()
    thorough = ck.tier == "thorough"
    ck.add_tlc(vlib.mc("MC_Extract", "MC_Extract_safe.cfg", ck.scratch, workers=8, timeout=1800))
    for design in ("naive", "parentonly", "mkdirfirst", "nolinkcheck"):
        r = vlib.tlc("MC_Extract", f"MC_Extract_{design}.cfg", ck.scratch, workers=1, timeout=600)
        if r["ok"] or "ContainedInv is violated" not in r["out"]:
            raise ToolError(f"MC_Extract_{design}: the specification does not refute this extractor design")
    ck.extra["design_counterexamples"] = ("the naive extractor (join + create through links), the one that checks only the "
                                          "immediate parent for links, and the one that creates parents before refusing "
                                          "each violate Contained within two entries (as expected)")
    cases = ck.scratch / "extract_cases.ndjson"
    ck.add_tlc(vlib.gen_cases("Gen_Extract", "Gen_Extract_thorough.cfg" if thorough else "Gen_Extract_quick.cfg", ck.scratch, cases, timeout=1800, xmx="6g"))
    def esc(e):
        e["outside_diff"] = [{"path": "j1/j2/jail/out/victim", "before": "file", "after": "file"}]
    events = stateless_check(
        ck, binary, "c12", "Trace_C12", ["--cases", cases, "--n", 1500 if thorough else 40],
        [("Extract", esc), ("ExtractBuilt", esc)],
        lambda e, r: (f"Extract:{json.dumps(e['entries'], sort_keys=True)}:{e['outcome']}" if e["event"] in ("Extract", "Panic") and "entries" in e
                      else f"{e['event']}:{e.get('i')}:{e.get('outcome')}") if e else "?",
        shards=8)
    ex = [e for e in events if e["event"] == "Extract"]
    ck.evaluations = len(events)
    ck.nontrivial = sum(1 for e in ex if e["naive_escapes"]) + sum(1 for e in events if e["event"] == "ExtractBuilt")
    ck.extra.update(model_packages=len(ex), packages_on_which_a_naive_extractor_escapes=sum(1 for e in ex if e["naive_escapes"]),
                    benign_model_packages=sum(1 for e in ex if e["model_benign"]),
                    outcomes={"ok": sum(1 for e in ex if e["outcome"] == "ok"), "err": sum(1 for e in ex if e["outcome"] == "err")},
                    built_packages_extracted=sum(1 for e in events if e["event"] == "ExtractBuilt"))
    hostile = next((e for e in ex if e["naive_escapes"]), None)
    if hostile:
        ck.samples.append({k: hostile[k] for k in ("entries", "outcome", "outside_diff")})
    ck.rule = ("every package of <= 2 (3 thorough) entries over the model's hostile alphabet (paths a, b, a/b, ../out/victim, "
               "a/../../out/x; files, directories, links to ../out, to an absolute outside directory and to b; a fifo), "
               "hand-encoded and extracted into a scratch jail snapshotted before and after; seeded built packages (nested "
               "directories, symlinks, all permission bits) extracted and compared with their configuration; non-trivial = "
               "packages on which the model's naive extractor leaves the target + built packages")
    ck.assumptions.append("the whole scratch tree (three levels above the target) is snapshotted; effects beyond it would be missed")
    ck.finish()


# ------------------------------------------------------------------------------------ C04
TRACE_MODULE["C04"] = "Trace_C04"


@prop("C04")
def c04(ck):
    binary = vlib.build_harness()
    thorough = ck.tier == "thorough"
    # (MC_Parser ASSUMEs that every failure transition of the parser machine is the outcome of some header)
    ck.add_tlc(vlib.mc("MC_Parser", "MC_Parser.cfg", ck.scratch, workers=8))
    ck.extra["parser_error_transitions_covered"] = 6
    cases = ck.scratch / "hostile_cases.ndjson"
    ck.add_tlc(vlib.gen_cases("Gen_Hostile", "Gen_Hostile_thorough.cfg" if thorough else "Gen_Hostile_quick.cfg", ck.scratch, cases, timeout=1800, xmx="6g"))
    hcases = ck.scratch / "hdr_cases.ndjson"
    ck.add_tlc(vlib.gen_cases("Gen_Hdr", "Gen_Hdr_quick.cfg", ck.scratch, hcases, timeout=1200))
    dcases = ck.scratch / "digest_cases.ndjson"
    ck.add_tlc(vlib.gen_cases("Gen_Digests", "Gen_Digests.cfg", ck.scratch, dcases, timeout=600))
    def aborted(e):
        e["exit"] = "abort(signal 6)"
    def panicked(e):
        e["results"] = e["results"] + ["panic"]
    def hungry(e):
        e["worst_peak"] = 1048576 + 64 * e["input_len"] + 1
    events = stateless_check(
        ck, binary, "c04", "Trace_C04", ["--cases", cases, "--digest-cases", dcases, "--hdr-cases", hcases, "--mutants", 150000 if thorough else 2500],
        [("Outcome", aborted), ("Outcome", panicked), ("Outcome", hungry)],
        lambda e, r: (f"{e.get('family')}:{e.get('exit')}:" + (",".join(sorted({p['op'] + ' ' + p.get('msg', '')[:60] for p in e.get('panics', [])})) or
                      (json.dumps(e.get('input'), sort_keys=True)[:200] if e.get('exit') != 'normal' else 'alloc'))) if e else "?",
        shards=8, timeout=6000)
    outs = [e for e in events if e["event"] == "Outcome"]
    ck.evaluations = len(outs)
    ck.nontrivial = sum(1 for e in outs if not e["accepted"]) + len({tuple(e["results"]) for e in outs})
    fam = {}
    for e in outs:
        k = e["family"] + (":accepted" if e["accepted"] else ":rejected")
        fam[k] = fam.get(k, 0) + 1
    gen = [e for e in outs if e["family"] == "gen"]
    ck.extra.update(inputs=fam, operations_run=sum(len(e["results"]) for e in outs),
                    worst_allocation_ratio=round(max(e["worst_peak"] / (1048576 + 64 * e["input_len"]) for e in outs), 4),
                    informational_model_lenient_vs_library={
                        "model_ok_library_rejects": sum(1 for e in gen if e["input"]["predict"] == "ok" and not e["accepted"]),
                        "model_err_library_accepts": sum(1 for e in gen if e["input"]["predict"] != "ok" and e["accepted"])})
    ck.samples += [{k: e[k] for k in ("family", "case", "input_len", "exit", "accepted", "worst_peak", "results")} for e in outs[:2]]
    if gen:
        ck.samples.append(gen[len(gen) // 2]["input"])
    ck.rule = ("inputs: TLC-generated boundary-value products (intro sizes, one entry with type 0..10 x offset x count boundary "
               "classes x stores with / without terminators; wrongly typed / sized entries under every tag the accessors and "
               "verifiers read, in both headers), every truncation (stride 3 quick, 1 thorough) and three single-byte "
               "mutations per metadata byte of two small assets and a built signed package, seeded structure-aware mutants, "
               "hostile uncompressed cpio payloads (every header field at boundary values, magics, stripped indexes, name "
               "defects, truncations); per input: PackageMetadata::parse, Package::parse and on success every accessor, file "
               "listing, Display, digest / signature verification with real verifiers, key ids, files() to exhaustion, write; "
               "in a child process under RLIMIT_AS, alarm() and a counting allocator; non-trivial = rejected inputs + distinct "
               "result vectors")
    ck.assumptions += ["a panic inside a dependency (pgp, nom, decoders) reached through the library's API counts",
                       "allocation bound K0 = 1 MiB + 64 bytes per input byte, per operation"]
    ck.finish()
