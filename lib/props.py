"""Per-property drivers. Each takes a vlib.Check, runs MC / GEN / TRACE legs and calls ck.finish()."""
import copy
import json
from pathlib import Path

import vlib
from vlib import ToolError, log, read_ndjson, write_ndjson

REGISTRY = {}


def prop(pid):
    def deco(f):
        REGISTRY[pid] = f
        return f
    return deco


def replay(pid, path):
    """Re-run one recorded violating event through the trace specification and print the verdict."""
    rep = json.loads(Path(path).read_text())
    print(json.dumps(rep, indent=1)[:4000])
    mod = TRACE_MODULE.get(pid)
    if not mod or rep.get("event") is None:
        return
    ck = vlib.Check(pid, "quick", rep.get("seed", 1))
    ev = rep["event"]
    evs = ev if isinstance(ev, list) else [ev]
    tr = ck.scratch / "replay.ndjson"
    write_ndjson(tr, evs)
    v = vlib.validate_trace(mod, f"{mod}.cfg", ck.scratch, tr)
    print("spec verdict:", json.dumps(v["rejects"]))


TRACE_MODULE = {}


def add_rejects(ck, rejects, events_by_id, keyfn):
    for r in rejects:
        ev = events_by_id.get(r["id"])
        ck.violation(keyfn(ev, r), r.get("why", ""), ev)


def sample_events(ck, events, kinds, per_kind=1):
    seen = {}
    for e in events:
        k = e.get("event")
        if k in kinds and seen.get(k, 0) < per_kind:
            seen[k] = seen.get(k, 0) + 1
            s = json.dumps(e)
            ck.samples.append(json.loads(s) if len(s) < 1500 else {"event": k, "truncated": s[:1500]})


# ------------------------------------------------------------------------------------ C13
TRACE_MODULE["C13"] = "Trace_C13"


@prop("C13")
def c13(ck):
    thorough = ck.tier == "thorough"
    binary = vlib.build_harness()
    # MC: the specification itself (small-step machine == big-step, RpmVerCmp == KeyCmp, order laws)
    r = vlib.mc("MC_RpmVerCmp", "MC_RpmVerCmp_thorough.cfg" if thorough else "MC_RpmVerCmp_quick.cfg",
                ck.scratch, workers=8, timeout=3000)
    ck.add_tlc(r)
    # TRACE: exhaustive rows over the canonical domain + seeded long pairs/triples + EVR/NEVRA tuples
    families = [("48,49,57,97,98,90,46,45,95,126,94,233", 3 if thorough else 2, 20000 if thorough else 3000)]
    if thorough:
        families.append(("48,49,97,90,46,126,94,233", 4, 200000))
    else:
        families.append(("48,49,97,90,46,126,94,233", 3, 3000))
    total_pairs = 0
    for fi, (alpha, maxlen, pairs) in enumerate(families):
        tr = ck.scratch / f"c13_{fi}.ndjson"
        vlib.run_harness(binary, ["c13", "--out", tr, "--seed", ck.seed + fi, "--alpha", alpha,
                                  "--maxlen", maxlen, "--pairs", pairs, "--triples", pairs // 4])
        events = read_ndjson(tr)
        by_id = {e["id"]: e for e in events}
        # canaries: corrupt one recorded result of a row, a pair and an EVR tuple
        nid = max(by_id) + 1
        canaries = []
        for kind, mut in (("CmpRow", lambda e: e["res"].__setitem__(len(e["res"]) // 2, 1 if e["res"][len(e["res"]) // 2] != 1 else -1)),
                          ("CmpPair", lambda e: e.__setitem__("res", 0 if e["res"] != 0 else 1)),
                          ("EvrRow", lambda e: e.__setitem__("ord", 0 if e["ord"] != 0 else 1))):
            src = next((e for e in events if e["event"] == kind), None)
            if src is None:
                raise ToolError(f"no {kind} event recorded")
            c = copy.deepcopy(src)
            mut(c)
            c["id"] = nid
            canaries.append(nid)
            nid += 1
            events.append(c)
        write_ndjson(tr, events)
        v = vlib.validate_trace("Trace_C13", "Trace_C13.cfg", ck.scratch, tr, shards=14, timeout=3000)
        ck.add_validation(v)
        rej = ck.expect_canary(v["rejects"], canaries)
        add_rejects(ck, rej, by_id, lambda e, r: f"{e['event']}:{vlib_codes(e.get('a'))}" if e else "?")
        if v["nrej"] - len(canaries) > len(rej):
            log(f"  ({v['nrej']} rejected events in total)")
        rows = [e for e in events if e["event"] == "CmpRow"]
        n = len(rows)
        total_pairs += n * n
        ck.evaluations += n * n + sum(1 for e in events if e["event"] != "CmpRow")
        ck.nontrivial += sum(1 for e in rows for x in e["res"] if x != 0) + \
            sum(1 for e in events if e["event"] in ("CmpPair", "EvrRow", "NevraRow") and e.get("res", e.get("ord")) != 0)
        sample_events(ck, events, {"CmpPair", "Triple", "EvrRow", "NevraRow"})
    ck.rule = ("all ordered pairs of strings over the stated alphabets up to the stated length (complete "
               "within the bound), seeded long pairs/triples biased to shared prefixes, leading zeros and "
               "separator runs, EVR and NEVRA tuples; non-trivial = distinct ordered pairs whose expected "
               "result is not 'equal'")
    ck.extra.update(exhaustive_pairs=total_pairs, domains=[dict(alphabet=a, maxlen=m) for a, m, _ in families])
    ck.assumptions += ["rpmvercmp transcribed from rpm's lib/rpmvercmp.c; cross-validated in TLC against the "
                       "token-key order on the MC domain", "code points >= 128 behave as separators"]
    ck.finish()


def vlib_codes(cs):
    if cs is None:
        return ""
    return "".join(chr(c) for c in cs)
