SPECIFICATION Spec
CONSTANTS
  Owners = {1, 2, 3}
  Design = "hashset"
PROPERTY DetAction
CHECK_DEADLOCK FALSE
