SPECIFICATION Spec
CONSTANTS
  Keys = {"rsa4096", "rsa3072p", "ed25519", "ecdsa", "assetsub"}
  MaxLen = 5
INVARIANTS FoldAgrees AtMostOne LastSignerWins ClearedVerifiesNothing
CHECK_DEADLOCK FALSE
