-------------------------------- MODULE MC_Rpm --------------------------------
EXTENDS Rpm, TLC
CONSTANT MaxSteps
Init == RInit
Next == steps < MaxSteps /\ ((\E k \in Keys : Sign(k)) \/ Clear \/ SignFail \/ Reparse \/ TamperHeader \/ TamperPayload)
Spec == Init /\ [][Next]_rvars
\* a payload tamper is never healed; a header tamper is healed exactly by re-signing / clearing
PayloadStays == [][payDirty => payDirty']_rvars
\* only an alteration of the written header makes the recorded header digest untrue, and every completed
\* sign / clear makes it true again; a failed signing operation changes nothing
DigestKept == [][(HdrDigestTrue /\ ~HdrDigestTrue') => steps' = steps + 1 /\ signer' = signer /\ payDirty' = payDirty]_rvars
=============================================================================
