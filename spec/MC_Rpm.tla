-------------------------------- MODULE MC_Rpm --------------------------------
EXTENDS Rpm, TLC
CONSTANT MaxSteps
Init == RInit
Next == steps < MaxSteps /\ ((\E k \in Keys : Sign(k)) \/ Clear \/ Reparse \/ TamperHeader \/ TamperPayload)
Spec == Init /\ [][Next]_rvars
\* a payload tamper is never healed; a header tamper is healed exactly by re-signing / clearing
PayloadStays == [][payDirty => payDirty']_rvars
=============================================================================
