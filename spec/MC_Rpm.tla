-------------------------------- MODULE MC_Rpm --------------------------------
EXTENDS Rpm, TLC
CONSTANT MaxSteps
Init == RInit
Next == steps < MaxSteps /\ ((\E k \in Keys : Sign(k)) \/ Clear \/ SignFail \/ Reparse \/ TamperHeader \/ TamperPayload \/ TamperRecDigest \/ TamperSigBlob)
Spec == Init /\ [][Next]_rvars
\* a payload tamper is never healed; a header tamper is healed exactly by re-signing / clearing
PayloadStays == [][payDirty => payDirty']_rvars
\* only an alteration of the written header makes the recorded header digest untrue, and every completed
\* sign / clear makes it true again; a failed signing operation changes nothing
DigestKept == [][(HdrDigestTrue /\ ~HdrDigestTrue') => steps' = steps + 1 /\ signer' = signer /\ payDirty' = payDirty]_rvars
\* the signature header is repaired only by being rebuilt (Sign / Clear), and a rebuild also makes the recorded
\* header digest true; nothing else clears recDirty or sigDirty
RebuiltOnly == [][((recDirty /\ ~recDirty') \/ (sigDirty /\ ~sigDirty')) => (~hdrDirty' /\ ~recDirty' /\ ~sigDirty' /\ payDirty' = payDirty)]_rvars
\* tampering with the signature header never changes what the main header or payload digests say
SigTamperLocal == [][(recDirty' # recDirty /\ recDirty') \/ (sigDirty' # sigDirty /\ sigDirty') => (hdrDirty' = hdrDirty /\ payDirty' = payDirty /\ signer' = signer)]_rvars
=============================================================================
