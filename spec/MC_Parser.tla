------------------------------ MODULE MC_Parser ------------------------------
EXTENDS Parser, TLC
VARIABLES hdr, st
Hdrs == [nindex : NClass, dsize : DClass, entries : UNION {[1..m -> Entry] : m \in 0..1}]
Init == hdr \in Hdrs /\ st = St0
Next == ~Stopped(st) /\ st' = StepF(hdr, st) /\ UNCHANGED hdr
Spec == Init /\ [][Next]_<<hdr, st>>
NeverOutOfBounds == InBounds(hdr, st)
BigStepAgrees == Stopped(st) => Outcome(hdr) = (IF st.pc = "err" THEN st.why ELSE "ok")
\* no vacuity: every failure transition, and success, is the outcome of some header
ASSUME {Outcome(h) : h \in Hdrs} = Whys \cup {"ok"}
=============================================================================
