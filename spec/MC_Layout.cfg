SPECIFICATION Spec
INVARIANTS Increasing Aligned Unique
CHECK_DEADLOCK FALSE
