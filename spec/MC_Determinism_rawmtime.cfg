SPECIFICATION Spec
CONSTANTS
  Owners = {1, 2, 3}
  Design = "rawmtime"
PROPERTY DetAction
INVARIANT ClampInv
CHECK_DEADLOCK FALSE
