SPECIFICATION Spec
INVARIANTS Named Closed
CHECK_DEADLOCK FALSE
