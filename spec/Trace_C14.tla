------------------------------ MODULE Trace_C14 ------------------------------
(* Trace validation for C14 (and the hashing-writer clause of C08).         *)
(*  - detailed episodes: Begin, then one event per write() call of the      *)
(*    scripted sink, then Return - replayed through the IoSink actions;     *)
(*  - Run summaries of the fault-enumeration families (one per failure      *)
(*    offset / chunking), judged by the same safety conditions;             *)
(*  - reader side: parsing under any chunking equals parsing the whole,     *)
(*    truncation before the payload is an error;                            *)
(*  - HashRun: the hashing wrapper hashed exactly the accepted bytes.       *)
EXTENDS Naturals, Sequences, TraceBase
VARIABLES l, rej, nrej, pos, offered, prefixOk, sinkFailed, result, L, dead
IO == INSTANCE IoSink
vars == <<l, rej, nrej, pos, offered, prefixOk, sinkFailed, result, L, dead>>
R == Rec[l]

Init == l = 1 /\ rej = <<>> /\ nrej = 0 /\ IO!IoInit /\ L = 0 /\ dead = FALSE

Good == UNCHANGED <<rej, nrej>>
Bad(why) == LET y == NoteReject(rej, nrej, l, why) IN rej' = y.rej /\ nrej' = y.nrej

Begin == /\ R.event = "Begin" /\ L' = R.canonical_len /\ dead' = FALSE
         /\ pos' = 0 /\ offered' = 0 /\ prefixOk' = TRUE /\ sinkFailed' = FALSE /\ result' = "running" /\ Good
\* one write() call observed by the sink: the offer and the sink's scripted response
Call == /\ R.event = "Write" /\ ~dead /\ UNCHANGED dead
        /\ IF R.len = 0 THEN IO!EmptyOffer /\ Good
           ELSE IO!Call(R.len, R.at_pos, R.resp, R.k)
                \* report the first offending call of an episode only
                /\ (IF IO!PrefixAlways' \/ ~prefixOk THEN Good ELSE Bad("offer does not continue the canonical bytes"))
Ret == /\ R.event = "Return" /\ ~dead /\ UNCHANGED dead
       /\ IF R.result = "ok" THEN IO!ReturnOk /\ (IF IO!Safe' /\ R.emitted_len = pos THEN Good ELSE Bad("success without the canonical bytes"))
          ELSE IF R.result = "err" THEN IO!ReturnErr /\ (IF IO!Safe' THEN Good ELSE Bad("error after a non-prefix"))
          ELSE IO!ReturnErr /\ Bad("panic")
\* summaries (stateless)
RunOk(r) == /\ r.result \in {"ok", "err"}
            /\ r.all_at_pos = TRUE
            /\ r.emitted_len <= r.canonical_len
            /\ (r.result = "ok" => r.emitted_len = r.canonical_len)
ChunkedOk(r) == r.result = "ok" /\ r.same_as_whole = TRUE
TruncOk(r) == IF r.at < r.payload_at THEN r.result = "err"
              ELSE r.result = "ok" /\ r.content_len = r.at - r.payload_at
HashOk(r) == r.result \in {"ok", "err"} /\ r.hashed = r.digest_of_emitted
Stateless == /\ R.event \in {"Run", "ParseChunked", "ParseTruncated", "HashRun"}
             /\ UNCHANGED <<pos, offered, prefixOk, sinkFailed, result, L, dead>>
             /\ IF (CASE R.event = "Run" -> RunOk(R) [] R.event = "ParseChunked" -> ChunkedOk(R)
                      [] R.event = "ParseTruncated" -> TruncOk(R) [] OTHER -> HashOk(R))
                THEN Good ELSE Bad(R.event)
Other == /\ (R.event \notin {"Begin", "Write", "Return", "Run", "ParseChunked", "ParseTruncated", "HashRun"} \/ (dead /\ R.event \in {"Write", "Return"}))
         /\ UNCHANGED <<pos, offered, prefixOk, sinkFailed, result, L>>
         /\ IF dead THEN Good /\ UNCHANGED dead ELSE Bad(R.event) /\ dead' = TRUE

Next == l <= N /\ l' = l + 1 /\ (Begin \/ Call \/ Ret \/ Stateless \/ Other)
Spec == Init /\ [][Next]_vars
Finished == (l = N + 1) => WriteVerdict(rej, nrej)
=============================================================================
