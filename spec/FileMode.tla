------------------------------ MODULE FileMode ------------------------------
(* C18: the 16-bit mode word and its conversions, stated over integers.     *)
EXTENDS Naturals, Integers

Word        == 0 .. 65535
TypeMask    == 61440     \* 0o170000
PermMask    == 4095      \* 0o7777
TypeBits(w) == (w \div 4096) * 4096
Perms(w)    == w % 4096
DirT        == 16384     \* 0o040000
RegT        == 32768     \* 0o100000
LnkT        == 40960     \* 0o120000

Class(w) == IF TypeBits(w) = DirT THEN "dir"
            ELSE IF TypeBits(w) = RegT THEN "regular"
            ELSE IF TypeBits(w) = LnkT THEN "symlink"
            ELSE "other"

\* a 32-bit integer is convertible iff it lies in i16::MIN ..= u16::MAX; its word is its low 16 bits
InRange(x)  == x >= -32768 /\ x <= 65535
WordOf(x)   == IF x >= 0 THEN x ELSE x + 65536

\* what every observation of the mode made from word w must report
Obs(w) == [raw |-> w, type |-> TypeBits(w), perms |-> Perms(w), class |-> Class(w),
           valid |-> Class(w) # "other"]

CtorType(kind) == IF kind = "dir" THEN DirT ELSE IF kind = "regular" THEN RegT ELSE LnkT
CtorObs(kind, p) == Obs(CtorType(kind) + (p % 4096))

\* algebra checked exhaustively by MC_FileMode
Recombine(w)  == TypeBits(w) + Perms(w) = w
PartsInMask(w) == TypeBits(w) % 4096 = 0 /\ TypeBits(w) <= TypeMask /\ Perms(w) <= PermMask
=============================================================================
