SPECIFICATION Spec
CONSTANT Thorough = FALSE
CHECK_DEADLOCK FALSE
