----------------------------- MODULE BuilderArgs -----------------------------
(***************************************************************************)
(* C17: argument validation of the builder.                                *)
(* A destination is a string over code points; it is split on '/' into     *)
(* components.  `MustErr(dest)` holds for destinations that cannot be split *)
(* into a directory and a file name under any reading: they do not start   *)
(* with "/" or "./", or - after dropping trailing empty and "." components *)
(* - nothing but the root or "." remains, or the last component is "..".   *)
(* Everything else may succeed or fail; nothing may panic.                 *)
(***************************************************************************)
EXTENDS Naturals, Sequences

Slash == 47
DotC  == 46

RECURSIVE Split(_, _, _)
Split(s, i, cur) ==
    IF i > Len(s) THEN <<cur>>
    ELSE IF s[i] = Slash THEN <<cur>> \o Split(s, i + 1, <<>>)
    ELSE Split(s, i + 1, Append(cur, s[i]))

Comps(s) == Split(s, 1, <<>>)
IsCur(c)    == c = <<>> \/ c = <<DotC>>
IsParent(c) == c = <<DotC, DotC>>

RECURSIVE DropTrailingCur(_)
DropTrailingCur(cs) ==
    IF cs = <<>> THEN <<>>
    ELSE IF IsCur(cs[Len(cs)]) THEN DropTrailingCur(SubSeq(cs, 1, Len(cs) - 1))
    ELSE cs

StartsOk(s) == (Len(s) >= 1 /\ s[1] = Slash) \/ (Len(s) >= 2 /\ s[1] = DotC /\ s[2] = Slash)

NoFinalName(s) ==
    LET cs == DropTrailingCur(Comps(s)) IN cs = <<>> \/ IsParent(cs[Len(cs)])

MustErr(s) == ~StartsOk(s) \/ NoFinalName(s)

DestAllowed(s, outcome) == outcome \in {"ok", "err"} /\ (MustErr(s) => outcome = "err")

\* compression levels: any (type, level) may build or fail, never panic
LevelAllowed(outcome) == outcome \in {"ok", "err"}
=============================================================================
