--------------------------- MODULE BuilderDerived ---------------------------
(***************************************************************************)
(* What the builder adds on its own account: the part of a built package's *)
(* metadata that no caller supplied.  None of the listed properties speaks *)
(* about these values; they are specified here because they are behaviour  *)
(* users see (rpm -qi, dependency solvers), and Trace_Derived binds them   *)
(* to the implementation.  A disagreement is reported as a note in the     *)
(* evidence of C06, never as a violation of a property.                    *)
(*                                                                         *)
(*   cfg, files   the abstract configuration (as in Builder)               *)
(*   d            raw observations decoded from the written bytes by the   *)
(*                harness's own header reader                              *)
(***************************************************************************)
EXTENDS Builder, RpmNames, DerivedNames

Dec(n) == IF n < 10 THEN <<48 + n>> ELSE <<48 + (n \div 10), 48 + (n % 10)>>     \* 0..99 in decimal
StartsWith(p, s) == Len(p) <= Len(s) /\ SubSeq(s, 1, Len(p)) = p
SetOf(s) == {s[i] : i \in 1..Len(s)}
Tail2(s) == SubSeq(s, Len(s) - 1, Len(s))
LastN(s, n) == SubSeq(s, Len(s) - n + 1, Len(s))

\* ---- tags
AlwaysTags == {1000, 1001, 1002, 1003, 1004, 1005, 1006, 1009, 1014, 1016, 1021, 1022, 1044, 1047, 1112, 1113,
               1049, 1048, 1050, 1064, 100, 1124, 5062, 5092, 5093, 5097}
FileTagSet == {1028, 1030, 1033, 1034, 1035, 1036, 1037, 1039, 1040, 1095, 1096, 1116, 1097, 5011, 1045, 1117, 1118}
KindTags == [ conflicts |-> {1054, 1053, 1055}, obsoletes |-> {1090, 1114, 1115}, recommends |-> {5046, 5048, 5047},
              suggests |-> {5049, 5051, 5050}, enhances |-> {5055, 5057, 5056}, supplements |-> {5052, 5054, 5053} ]
ScriptTagsOf == [ pre_install |-> <<1023, 5020, 1085>>, post_install |-> <<1024, 5021, 1086>>,
                  pre_uninstall |-> <<1025, 5022, 1087>>, post_uninstall |-> <<1026, 5023, 1088>>,
                  pre_trans |-> <<1151, 5024, 1153>>, post_trans |-> <<1152, 5025, 1154>>,
                  pre_untrans |-> <<5103, 5107, 5105>>, post_untrans |-> <<5104, 5108, 5106>>,
                  verify |-> <<1079, 5026, 1091>> ]
NonRoot(fs, field) == {fs[i][field].some : i \in {j \in 1..Len(fs) : IsSome(fs[j][field]) /\ fs[j][field].some # N_Root}}
AnyCaps(fs) == \E i \in 1..Len(fs) : IsSome(fs[i].caps)
HasKind(cfg, k) == \E i \in 1..Len(cfg.deps) : cfg.deps[i].kind = k
ScriptTagSet(s) == LET t == ScriptTagsOf[s.kind] IN
                   {t[1]} \cup (IF IsSome(s.flags) THEN {t[2]} ELSE {})
                          \cup (IF IsSome(s.prog) /\ s.prog.some # <<>> THEN {t[3]} ELSE {})
OptTag(cfg, f, t) == IF IsSome(cfg[f]) THEN {t} ELSE {}
Compressed(cfg) == ~(IsSome(cfg.compression) /\ cfg.compression.some.type = "none")
ExpectedTags(cfg, fs) ==
    AlwaysTags
    \cup (IF fs # <<>> THEN FileTagSet \cup (IF AnyCaps(fs) THEN {5010} ELSE {}) ELSE {})
    \cup UNION {IF HasKind(cfg, k) THEN KindTags[k] ELSE {} : k \in DOMAIN KindTags}
    \cup (IF NonRoot(fs, "user") \cup NonRoot(fs, "group") # {} THEN KindTags.recommends ELSE {})
    \cup UNION {ScriptTagSet(cfg.scripts[i]) : i \in 1..Len(cfg.scripts)}
    \cup OptTag(cfg, "build_host", 1007) \cup OptTag(cfg, "vendor", 1011) \cup OptTag(cfg, "packager", 1015)
    \cup OptTag(cfg, "url", 1020) \cup OptTag(cfg, "vcs", 5034) \cup OptTag(cfg, "cookie", 1094)
    \cup (IF cfg.changelog # <<>> THEN {1080, 1081, 1082} ELSE {})
    \cup (IF Compressed(cfg) THEN {1125, 1126} ELSE {})

\* ---- values
StrOf(d, t) == LET k == CHOOSE j \in 1..Len(d.strs) : d.strs[j].t = t IN d.strs[k].v
Constants(d) ==
    /\ StrOf(d, 1044) = [some |-> N_None] /\ StrOf(d, 1021) = [some |-> N_Linux]
    /\ StrOf(d, 5062) = [some |-> N_Utf8] /\ StrOf(d, 1124) = [some |-> N_Cpio]
    /\ IsSome(StrOf(d, 1064)) /\ StartsWith(N_RpmRs, StrOf(d, 1064).some)
    /\ d.i18ntable = << N_C >>
Defaults(cfg, d) ==
    /\ (~IsSome(cfg.description) => StrOf(d, 1005) = [some |-> cfg.summary])
    /\ (~IsSome(cfg.group) => StrOf(d, 1016) = [some |-> N_Unspecified])
RECURSIVE SumLen(_)
SumLen(fs) == IF fs = <<>> THEN 0 ELSE fs[1].len + SumLen(Tail(fs))
TotalSize(fs, d) == d.size = [some |-> <<SumLen(fs) \div 65536, SumLen(fs) % 65536>>]

Dep(n, f, v) == [a |-> n, b |-> f, c |-> v]
OwnProvides(cfg) == << Dep(cfg.name, DepSense.eq, cfg.version),
                       Dep(cfg.name \o <<40>> \o cfg.arch \o <<41>>, DepSense.eq, cfg.version) >>
Provides(cfg, d) == Len(d.provides) >= 2 /\ Tail2(d.provides) = OwnProvides(cfg)
CType(cfg) == IF IsSome(cfg.compression) THEN cfg.compression.some.type ELSE "default"
RpmlibReqs(cfg, fs) ==
    << Dep(S_CompressedFileNames, DepSense.rpmlib, V_CompressedFileNames), Dep(S_FileDigests, DepSense.rpmlib, V_FileDigests),
       Dep(S_PayloadFilesHavePrefix, DepSense.rpmlib, V_PayloadFilesHavePrefix) >>
    \o (IF CType(cfg) = "zstd" THEN << Dep(S_PayloadIsZstd, DepSense.rpmlib, V_PayloadIsZstd) >> ELSE <<>>)
    \o (IF CType(cfg) = "xz" THEN << Dep(S_PayloadIsXz, DepSense.rpmlib, V_PayloadIsXz) >> ELSE <<>>)
    \o (IF CType(cfg) = "bzip2" THEN << Dep(S_PayloadIsBzip2, DepSense.rpmlib, V_PayloadIsBzip2) >> ELSE <<>>)
    \o (IF AnyCaps(fs) THEN << Dep(S_FileCaps, DepSense.rpmlib, V_FileCaps) >> ELSE <<>>)
\* (with the default compression the codec's own rpmlib entry may sit between the fixed three and FileCaps)
Requires(cfg, fs, d) ==
    IF CType(cfg) = "default" THEN SubSeqOf(RpmlibReqs(cfg, fs), d.requires)
    ELSE Len(d.requires) >= Len(RpmlibReqs(cfg, fs)) /\ LastN(d.requires, Len(RpmlibReqs(cfg, fs))) = RpmlibReqs(cfg, fs)
Wrapped(w, n) == w \o <<40>> \o n \o <<41>>
Accounts(fs, d) ==
    LET us == SortSeq(SetToSeq(NonRoot(fs, "user")), LexLess)
        gs == SortSeq(SetToSeq(NonRoot(fs, "group")), LexLess)
        want == [i \in 1..Len(us) |-> Dep(Wrapped(N_User, us[i]), DepSense.user, <<>>)]
                \o [i \in 1..Len(gs) |-> Dep(Wrapped(N_Group, gs[i]), DepSense.group, <<>>)]
    IN Len(d.recommends) >= Len(want) /\ (want = <<>> \/ LastN(d.recommends, Len(want)) = want)
PerFile(fs, d) ==
    fs # <<>> =>
      /\ d.inodes = [i \in 1..Len(fs) |-> i] /\ d.devices = [i \in 1..Len(fs) |-> 1]
      /\ d.rdevs = [i \in 1..Len(fs) |-> 0] /\ d.langs = [i \in 1..Len(fs) |-> <<>>]
      /\ d.digestalgo = <<8>>
DirOf(p) == LET ks == {k \in 1..Len(p) : p[k] = 47} IN
            SubSeq(p, 1, CHOOSE k \in ks : \A j \in ks : j <= k)
Dirs(fs, d) ==
    fs # <<>> => d.dirnames = SortSeq(SetToSeq({DirOf(NormalPath(fs[i].dest)) : i \in 1..Len(fs)}), LexLess)
Codec(cfg, d) ==
    (IsSome(cfg.compression) /\ cfg.compression.some.type # "none") =>
        /\ StrOf(d, 1125) = [some |-> CASE cfg.compression.some.type = "gzip" -> S_Gzip [] cfg.compression.some.type = "zstd" -> S_Zstd
                                        [] cfg.compression.some.type = "xz" -> S_Xz [] OTHER -> S_Bzip2]
        /\ (IsSome(cfg.compression.some.level) => StrOf(d, 1126) = [some |-> Dec(cfg.compression.some.level.some)])
LeadOf(cfg, d) ==
    /\ d.lead.magic = <<237, 171, 238, 219>> /\ d.lead.major = 3 /\ d.lead.minor = 0 /\ d.lead.type = 0
    /\ d.lead.os = 1 /\ d.lead.sigtype = 5
    /\ d.lead.name = (IF Len(cfg.name) <= 65 THEN cfg.name ELSE SubSeq(cfg.name, 1, 65))

\* the signature header of a built package: the header SHA-256, and for build_and_sign the OpenPGP signature list plus
\* the legacy tag of the key's algorithm family (RSA 268, everything else under the "DSA" tag 267)
SigTags(cfg, d) ==
    SetOf(d.sig_tags) = {273} \cup (IF IsSome(cfg.signer)
                                    THEN {278, IF cfg.signer.some \in {"rsa4096", "rsa3072p", "asset"} THEN 268 ELSE 267}
                                    ELSE {})

Notes(cfg, fs, d) ==
    (IF SetOf(d.tags) = ExpectedTags(cfg, fs) THEN {} ELSE {"tag set"})
    \cup (IF Constants(d) THEN {} ELSE {"constants"}) \cup (IF Defaults(cfg, d) THEN {} ELSE {"defaults"})
    \cup (IF TotalSize(fs, d) THEN {} ELSE {"SIZE"}) \cup (IF Provides(cfg, d) THEN {} ELSE {"own provides"})
    \cup (IF Requires(cfg, fs, d) THEN {} ELSE {"rpmlib requires"}) \cup (IF Accounts(fs, d) THEN {} ELSE {"user/group recommends"})
    \cup (IF PerFile(fs, d) THEN {} ELSE {"per-file constants"}) \cup (IF Dirs(fs, d) THEN {} ELSE {"directory list"})
    \cup (IF Codec(cfg, d) THEN {} ELSE {"payload compressor / flags"}) \cup (IF LeadOf(cfg, d) THEN {} ELSE {"lead"})
    \cup (IF SigTags(cfg, d) THEN {} ELSE {"signature header tags"})
=============================================================================
