------------------------------ MODULE TraceBase ------------------------------
(***************************************************************************)
(* Common scaffolding of every trace specification.                        *)
(*   Rec      the recorded events: one JSON object per line of $TRACE      *)
(*   l        position of the next event to consume                        *)
(*   rej      the events no action of the specification allows (first 400)  *)
(*   nrej     their total number                                           *)
(* A trace specification consumes exactly one event per step; an event the *)
(* specification's action does not allow is *recorded* (not silently       *)
(* skipped) and the episode it belongs to is abandoned, so that the rest   *)
(* of the file is still validated.  When the file is exhausted the verdict *)
(* is written to $OUT by the `Finished` invariant; the driver insists on   *)
(* events = number of lines.                                               *)
(***************************************************************************)
EXTENDS Naturals, Sequences, TLC, Json, IOUtils

Rec == ndJsonDeserialize(IOEnv.TRACE)
N   == Len(Rec)

Has(r, f) == f \in DOMAIN r

NoteReject(rej, nrej, l, why) ==
    [ rej  |-> IF Len(rej) < 400 THEN Append(rej, [id |-> Rec[l].id, line |-> l, why |-> why]) ELSE rej,
      nrej |-> nrej + 1 ]

Verdict(rej, nrej) == [events |-> N, nrej |-> nrej, rej |-> rej]
WriteVerdict(rej, nrej) == JsonSerialize(IOEnv.OUT, Verdict(rej, nrej))
=============================================================================
