----------------------------- MODULE Gen_Digests -----------------------------
(* GEN: the complete decision table, one case per row and per position of  *)
(* the wrong byte, for the harness to materialise on carrier packages.      *)
EXTENDS Digests, TLC, Json, IOUtils, SequencesExt
Cases == { [d |-> d, pos |-> p] : d \in Rows, p \in {"first", "middle", "last", "short", "long", "second"} }
Useful(c) == c.pos = "first" \/ c.d.md5 = "mismatch" \/ c.d.sha1 = "mismatch" \/ c.d.sha256 = "mismatch" \/ c.d.payload = "mismatch"
             \/ (c.pos = "second" /\ AlgoBad(c.d))       \* the algorithm entry then holds two items, the first of which counts
VARIABLE done
Init == done = FALSE
Next == ~done /\ done' = TRUE /\ ndJsonSerialize(IOEnv.OUT, SetToSeq({c \in Cases : Useful(c)}))
Spec == Init /\ [][Next]_done
=============================================================================
