SPECIFICATION Spec
INVARIANTS Safe OkNeedsConsult OkNeedsDigests
CHECK_DEADLOCK FALSE
