------------------------------- MODULE Gen_Hdr -------------------------------
(***************************************************************************)
(* GEN: hand-encoded packages enumerated from the format model for the     *)
(* implementation to parse (spec -> implementation direction).  Each case  *)
(* is abstract (intro fields, raw index entries, store bytes, or typed     *)
(* values); the harness lays it out as bytes and the resulting observation *)
(* is judged by Trace_Pkg from those bytes alone.                          *)
(*   G1  layout grid      every (nindex, dsize) combination incl. all     *)
(*                        residues mod 8 and "0 entries, non-empty store"  *)
(*   G2  raw entries      <= 2 entries over hostile-but-parseable fields   *)
(*   G3  intro / lead     each magic byte, version, reserved, padding,     *)
(*                        lead fields, payload sizes                       *)
(*   G4  typed headers    every accessor tag x every data type x counts    *)
(***************************************************************************)
EXTENDS Naturals, Integers, Sequences, FiniteSets, TLC, Json, IOUtils, SequencesExt

CONSTANT Thorough

NullEntries(n) == [k \in 1..n |-> <<1000 + k, 0, 0, 0>>]
Store(d) == [i \in 1..d |-> IF i % 5 = 0 THEN 0 ELSE 64 + (i % 26)]
RawHdr(n, d) == [entries |-> NullEntries(n), store |-> Store(d)]
NomSig == RawHdr(0, 0)
NomHdr == RawHdr(1, 4)

G1 == { [fam |-> "G1", sig |-> RawHdr(ns, ds), hdr |-> RawHdr(nh, dh), payload |-> p]
          : ns \in 0..3, ds \in 0..24, nh \in 0..2, dh \in {0, 5, 16}, p \in {0, 3} }
      \* more index entries than rpm itself allows in a header (65535): the reader takes them, so the offsets must hold
      \cup { [fam |-> "G1", sig |-> RawHdr(65536, 8), hdr |-> NomHdr, payload |-> 3],
              [fam |-> "G1", sig |-> NomSig, hdr |-> RawHdr(70000, 4), payload |-> 3] }

\* ---- G2: raw entries against a 4-byte store
Stores == { <<65, 0, 66, 0>>, <<65, 66, 67, 68>>, <<195, 40, 0, 0>>, <<0, 0, 0, 0>> }
Tags   == {62, 63, 100, 1000, 999}
Types  == 0..9
Offs   == {0, 1, 3, 4}
Cnts   == {0, 1, 2, 4}
OneEntry == { <<t, ty, o, c>> : t \in Tags, ty \in Types, o \in Offs, c \in Cnts }
SmallEntry == { <<t, ty, o, c>> : t \in {63, 1000, 999}, ty \in {0, 4, 6, 7, 8, 9}, o \in {0, 3}, c \in {0, 1, 2} }
G2a == { [fam |-> "G2", sig |-> NomSig, hdr |-> [entries |-> <<e>>, store |-> s], payload |-> 1]
           : e \in OneEntry, s \in Stores }
G2b == { [fam |-> "G2", sig |-> NomSig, hdr |-> [entries |-> <<e1, e2>>, store |-> s], payload |-> 0]
           : e1 \in SmallEntry, e2 \in SmallEntry, s \in IF Thorough THEN Stores ELSE {<<65, 0, 66, 0>>} }
G2c == { [fam |-> "G2", sig |-> [entries |-> <<e>>, store |-> s], hdr |-> NomHdr, payload |-> 2]
           : e \in SmallEntry, s \in Stores }

\* ---- G3: intro fields, padding, lead, payload
IntroVar == { [m0 |-> a, m1 |-> b, m2 |-> c, ver |-> v, res |-> r]
                : a \in {142, 143}, b \in {173, 0}, c \in {232, 233, 0}, v \in {0, 1, 2}, r \in {0, 255} }
WithIntro(h, iv) == [entries |-> h.entries, store |-> h.store, m0 |-> iv.m0, m1 |-> iv.m1, m2 |-> iv.m2,
                     ver |-> iv.ver, res |-> iv.res]
G3a == { [fam |-> "G3", sig |-> WithIntro(RawHdr(1, 3), iv), hdr |-> NomHdr, payload |-> 1, pad |-> pd]
           : iv \in IntroVar, pd \in {0, 170} }
G3b == { [fam |-> "G3", sig |-> RawHdr(1, 3), hdr |-> WithIntro(NomHdr, iv), payload |-> 1, pad |-> 0]
           : iv \in IntroVar }
\* (the last variant fills all 66 bytes of the name field: a name without terminator)
LeadVar == { <<>>, [i \in 1..66 |-> <<9 + i, 65>>] } \cup { << <<p, v>> >> : p \in {0, 3, 4, 5, 6, 7, 8, 9, 10, 75, 76, 77, 78, 79, 80, 95}, v \in {0, 1, 255} }
G3c == { [fam |-> "G3", sig |-> RawHdr(ns, ds), hdr |-> NomHdr, payload |-> p, pad |-> 0, lead |-> lv]
           : lv \in LeadVar, ns \in {0, 1}, ds \in {0, 3}, p \in {0, 9} }

\* ---- G4: typed well-formed headers for the accessor table
Vals(ty, c) ==
    IF ty \in {6, 8, 9} THEN [i \in 1..c |-> CASE i = 1 -> <<97, 98>> [] i = 2 -> <<>> [] OTHER -> <<195, 169, 120>>]
    ELSE IF ty = 5 THEN [i \in 1..c |-> <<i, 65535, 0, 7 + i>>]
    ELSE IF ty = 4 THEN [i \in 1..c |-> <<i - 1, 65530 + i>>]
    ELSE [i \in 1..c |-> <<10 + i>>]
AccTags == {1000, 1003, 1004, 1009, 5009, 1028, 5008, 1030, 1047, 1117, 5092}
G4a == { [fam |-> "G4", gets |-> TRUE, raw_tags |-> <<t>>, payload |-> 0,
          sig |-> [typed |-> <<>>],
          hdr |-> [typed |-> << [tag |-> t, type |-> ty, v |-> Vals(ty, IF ty = 6 THEN 1 ELSE c)] >>]]
           : t \in AccTags, ty \in 1..9, c \in 1..3 }
\* tag triples with members missing / differently typed: provides (1047 names, 1112 flags, 1113 versions),
\* file paths (1117 basenames, 1116 dirindexes, 1118 dirnames) with in- and out-of-range directory indexes
Opt3 == {"absent", "ok", "wrongtype"}
Member(tag, okty, st, c) ==
    IF st = "absent" THEN <<>>
    ELSE << [tag |-> tag, type |-> IF st = "ok" THEN okty ELSE (IF okty = 4 THEN 8 ELSE 4),
             v |-> Vals(IF st = "ok" THEN okty ELSE (IF okty = 4 THEN 8 ELSE 4), c)] >>
G4b == { [fam |-> "G4", gets |-> TRUE, raw_tags |-> <<>>, payload |-> 0, sig |-> [typed |-> <<>>],
          hdr |-> [typed |-> Member(1047, 8, a, c1) \o Member(1112, 4, b, c2) \o Member(1113, 8, c, c1)]]
           : a \in Opt3, b \in Opt3, c \in Opt3, c1 \in {1, 2}, c2 \in {1, 2, 3} }
DirIdx(k, n) == [i \in 1..n |-> <<0, IF i = n THEN k ELSE 0>>]
G4c == { [fam |-> "G4", gets |-> TRUE, raw_tags |-> <<>>, payload |-> 0, sig |-> [typed |-> <<>>],
          hdr |-> [typed |-> (IF a = "ok" THEN << [tag |-> 1117, type |-> 8, v |-> [i \in 1..nb |-> <<102, 48 + i>>]] >> ELSE Member(1117, 8, a, nb))
                          \o (IF b = "ok" THEN << [tag |-> 1116, type |-> 4, v |-> DirIdx(k, ni)] >> ELSE Member(1116, 4, b, ni))
                          \o (IF c = "ok" THEN << [tag |-> 1118, type |-> 8, v |-> [i \in 1..nd |-> IF i = 1 THEN <<47>> ELSE <<47, 100, 48 + i, 47>>]] >> ELSE Member(1118, 8, c, nd))]]
           : a \in Opt3, b \in Opt3, c \in Opt3, nb \in {1, 2}, ni \in {1, 2}, nd \in {1, 2}, k \in {0, 1, 2} }
\* scriptlets (script / flags / prog), changelog, i18n with several locales, sizes in both widths
\* the locale table (tag 100) present or not, with "C" first, later or missing: an i18n accessor returns the first string
LocaleTables == << <<>>, << [tag |-> 100, type |-> 8, v |-> << <<67>> >>] >>,
                   << [tag |-> 100, type |-> 8, v |-> << <<100, 101>>, <<67>> >>] >>,
                   << [tag |-> 100, type |-> 8, v |-> << <<100, 101>>, <<102, 114>> >>] >> >>
G4d == { [fam |-> "G4", gets |-> TRUE, raw_tags |-> <<1004>>, payload |-> 0, sig |-> [typed |-> <<>>],
          hdr |-> [typed |-> LocaleTables[lt] \o << [tag |-> 1004, type |-> 9, v |-> Vals(9, c)], [tag |-> 1005, type |-> 9, v |-> Vals(9, c)],
                               [tag |-> 1016, type |-> 9, v |-> Vals(9, c)] >>
                          \o Member(1023, 6, s, 1) \o Member(5020, 4, f, 1) \o Member(1085, 8, p, c)
                          \o Member(1081, 8, s, c) \o Member(1080, 4, f, c) \o Member(1082, 8, p, c)
                          \o Member(1009, 4, s, 1) \o Member(5009, 5, f, 1)]]
           : s \in Opt3, f \in Opt3, p \in Opt3, c \in {1, 2, 3}, lt \in 1..4 }

\* file entries: every per-file tag present / absent / wrongly typed, 32- and 64-bit sizes, capabilities,
\* digests of the right and of a wrong length, with and without the digest algorithm tag
Hex64 == [i \in 1..64 |-> IF i % 2 = 0 THEN 97 ELSE 48]
Hex32 == [i \in 1..32 |-> IF i % 2 = 0 THEN 98 ELSE 49]
Hex64Upper == [i \in 1..64 |-> IF i % 2 = 0 THEN 65 ELSE 70]        \* "FAFA..." : rpm accepts upper-case hex digits
\* a regular file, a fifo, a character device, a block device, a socket, a directory, a symbolic link, no type at all:
\* the mode list is returned as stored, whatever the file type
ModeList == <<33188, 4516, 8612, 24996, 49572, 16877, 41471, 420>>
ModeOf(i, v) == ModeList[((i + v.ms - 1) % Len(ModeList)) + 1]
FileTags(nf, v) ==
    << [tag |-> 1117, type |-> 8, v |-> [i \in 1..nf |-> <<102, 48 + i>>]],
       [tag |-> 1118, type |-> 8, v |-> << <<47, 111, 112, 116, 47>> >>],
       [tag |-> 1116, type |-> 4, v |-> [i \in 1..nf |-> <<0, 0>>]] >>
    \o (IF v.drop = 1030 THEN <<>> ELSE << [tag |-> 1030, type |-> IF v.bad = 1030 THEN 4 ELSE 3, v |-> [i \in 1..nf |-> IF v.bad = 1030 THEN <<0, 33188>> ELSE <<ModeOf(i, v)>>]] >>)
    \o (IF v.drop = 1039 THEN <<>> ELSE << [tag |-> 1039, type |-> IF v.bad = 1039 THEN 6 ELSE 8, v |-> [i \in 1..(IF v.bad = 1039 THEN 1 ELSE nf) |-> <<117, 48 + i>>]] >>)
    \o (IF v.drop = 1040 THEN <<>> ELSE << [tag |-> 1040, type |-> 8, v |-> [i \in 1..nf |-> <<103>>]] >>)
    \o (IF v.drop = 1035 THEN <<>> ELSE << [tag |-> 1035, type |-> 8, v |-> [i \in 1..nf |-> IF i = 1 THEN v.digest ELSE <<>>]] >>)
    \o (IF v.drop = 1034 THEN <<>> ELSE << [tag |-> 1034, type |-> IF v.bad = 1034 THEN 3 ELSE 4, v |-> [i \in 1..nf |-> IF v.bad = 1034 THEN <<7>> ELSE <<24414, i>>]] >>)
    \o (IF v.sizes = 64 THEN << [tag |-> 5008, type |-> 5, v |-> [i \in 1..nf |-> <<0, 1, 0, i>>]] >>
        ELSE IF v.sizes = 32 THEN << [tag |-> 1028, type |-> 4, v |-> [i \in 1..nf |-> <<0, 10 + i>>]] >> ELSE <<>>)
    \o (IF v.drop = 1037 THEN <<>> ELSE << [tag |-> 1037, type |-> 4, v |-> [i \in 1..nf |-> <<0, 17>>]] >>)
    \o (IF v.drop = 1036 THEN <<>> ELSE << [tag |-> 1036, type |-> 8, v |-> [i \in 1..nf |-> <<>>]] >>)
    \o (IF v.caps THEN << [tag |-> 5010, type |-> 8, v |-> [i \in 1..nf |-> IF i = 1 THEN <<61, 101>> ELSE <<>>]] >> ELSE <<>>)
    \o (IF v.algo = 0 THEN <<>> ELSE << [tag |-> 5011, type |-> 4, v |-> << <<0, v.algo>> >>] >>)
FileVariants == { [drop |-> d, bad |-> bd, sizes |-> sz, caps |-> c, algo |-> a, digest |-> dg, ms |-> 0]
                    : d \in {0, 1030, 1039, 1040, 1035, 1034, 1037, 1036}, bd \in {0, 1030, 1039, 1034}, sz \in {0, 32, 64},
                      c \in BOOLEAN, a \in {0, 8, 99}, dg \in {Hex64, Hex32, <<>>, Hex64Upper} }
                \cup { [drop |-> 0, bad |-> 0, sizes |-> 32, caps |-> FALSE, algo |-> 8, digest |-> Hex64, ms |-> m] : m \in 1..7 }
Relevant(v) == (v.drop = 0 \/ v.bad = 0) /\ (v.bad = 0 \/ (v.sizes = 32 /\ ~v.caps /\ v.algo = 8 /\ v.digest = Hex64))
               /\ (v.drop = 0 \/ (v.sizes = 32 /\ ~v.caps /\ v.algo = 8 /\ v.digest = Hex64))
ImaSig(k) == IF k = 0 THEN <<>> ELSE << [tag |-> 274, type |-> 8, v |-> [i \in 1..k |-> <<48, 51, 48 + i>>]] >>
\* the IMA signature tag present with another data type: the file list is then an error, not a list without signatures
ImaWrong == << [tag |-> 274, type |-> 6, v |-> << <<48, 51>> >>] >>
G4e == { [fam |-> "G4", gets |-> TRUE, raw_tags |-> <<>>, payload |-> 0, sig |-> [typed |-> ImaSig(IF v.caps THEN nf ELSE 0)],
          hdr |-> [typed |-> FileTags(nf, v)]] : nf \in {1, 2}, v \in {x \in FileVariants : Relevant(x)} }
       \cup { [fam |-> "G4", gets |-> TRUE, raw_tags |-> <<>>, payload |-> 0, sig |-> [typed |-> ImaWrong],
                hdr |-> [typed |-> FileTags(nf, [drop |-> 0, bad |-> 0, sizes |-> 32, caps |-> FALSE, algo |-> 8, digest |-> Hex64, ms |-> 0])]] : nf \in {1, 2} }

\* headers with entries appended after the immutable region (rpm's "dribbles"): tags the accessors read,
\* out of ascending order relative to the region's
RegionPart == << [tag |-> 1000, type |-> 6, v |-> << <<110>> >>], [tag |-> 1001, type |-> 6, v |-> << <<49>> >>],
                 [tag |-> 1022, type |-> 6, v |-> << <<120>> >>], [tag |-> 1118, type |-> 8, v |-> << <<47>> >>] >>
DribblePool == << [tag |-> 1003, type |-> 4, v |-> << <<0, 7>> >>], [tag |-> 1004, type |-> 9, v |-> << <<115>>, <<116>> >>],
                  [tag |-> 1006, type |-> 4, v |-> << <<1, 2>> >>], [tag |-> 1009, type |-> 4, v |-> << <<0, 99>> >>],
                  [tag |-> 1049, type |-> 8, v |-> << <<114>> >>], [tag |-> 1048, type |-> 4, v |-> << <<0, 8>> >>],
                  [tag |-> 1050, type |-> 8, v |-> << <<49>> >>], [tag |-> 1016, type |-> 9, v |-> << <<103>> >>],
                  [tag |-> 1117, type |-> 8, v |-> << <<102>> >>], [tag |-> 1116, type |-> 4, v |-> << <<0, 0>> >>] >>
G4f == { [fam |-> "G4", gets |-> TRUE, raw_tags |-> <<1003, 1004>>, payload |-> 0, sig |-> [typed |-> <<>>],
          hdr |-> [typed |-> RegionPart, dribble |-> [i \in 1..k |-> DribblePool[((i + sh - 1) % Len(DribblePool)) + 1]]]]
           : k \in 1..Len(DribblePool), sh \in 0..(Len(DribblePool) - 1) }

AllCases == SetToSeq(G1) \o SetToSeq(G2a) \o SetToSeq(G2b) \o SetToSeq(G2c) \o SetToSeq(G3a) \o SetToSeq(G3b)
            \o SetToSeq(G3c) \o SetToSeq(G4a) \o SetToSeq(G4b) \o SetToSeq(G4c) \o SetToSeq(G4d) \o SetToSeq(G4e) \o SetToSeq(G4f)

VARIABLE done
Init == done = FALSE
Next == ~done /\ done' = TRUE /\ ndJsonSerialize(IOEnv.OUT, AllCases)
Spec == Init /\ [][Next]_done
Count == done => PrintT(<<"cases", Len(AllCases)>>)
=============================================================================
