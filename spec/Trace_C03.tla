------------------------------ MODULE Trace_C03 ------------------------------
EXTENDS Digests, TraceBase
VARIABLES l, rej, nrej
vars == <<l, rej, nrej>>

Norm(o) == IF o \in {"ok", "DigestMismatchError"} THEN o ELSE "othererr"
DigestOk(r) == /\ r.d \in Rows
               /\ r.outcome # "panic"
               /\ Norm(r.outcome) \in Allowed(r.d)
EventOk(r) ==
    CASE r.event = "Digest" -> DigestOk(r)
      [] r.event = "ParseErr" -> TRUE           \* the mutated bytes are not a package: no claim
      [] OTHER -> FALSE
Init == l = 1 /\ rej = <<>> /\ nrej = 0
Next == /\ l <= N /\ l' = l + 1
        /\ IF EventOk(Rec[l]) THEN UNCHANGED <<rej, nrej>>
           ELSE LET y == NoteReject(rej, nrej, l, Rec[l].event) IN rej' = y.rej /\ nrej' = y.nrej
Spec == Init /\ [][Next]_vars
Finished == (l = N + 1) => WriteVerdict(rej, nrej)
=============================================================================
