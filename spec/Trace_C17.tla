------------------------------ MODULE Trace_C17 ------------------------------
EXTENDS BuilderArgs, TraceBase
LOCAL INSTANCE RpmVerCmp
FC == INSTANCE FileCaps
VARIABLES l, rej, nrej
vars == <<l, rej, nrej>>
Sigma == <<47, 46, 97, 98>>

DestOk(r) == /\ (Has(r, "i") => r.dest = NthStr(Sigma, r.i))
             /\ DestAllowed(r.dest, r.outcome)
\* capability text handed to the builder's file options: an error exactly when C19's acceptor rejects
CapsOk(r) == LET v == FC!Verdict(r.text) IN
             /\ r.outcome \in {"ok", "err"}
             /\ (v = "reject" => r.outcome = "err")
             /\ (v = "accept" => r.outcome = "ok")
LevelOk(r) == LevelAllowed(r.outcome)
MetaOk(r) == r.outcome \in {"ok", "err"}

EventOk(r) ==
    CASE r.event = "Dest" -> DestOk(r)
      [] r.event = "CapsArg" -> CapsOk(r)
      [] r.event = "Level" -> LevelOk(r)
      [] r.event = "Meta" -> MetaOk(r)
      [] OTHER -> FALSE

Init == l = 1 /\ rej = <<>> /\ nrej = 0
Next == /\ l <= N /\ l' = l + 1
        /\ IF EventOk(Rec[l]) THEN UNCHANGED <<rej, nrej>>
           ELSE LET y == NoteReject(rej, nrej, l, Rec[l].event) IN rej' = y.rej /\ nrej' = y.nrej
Spec == Init /\ [][Next]_vars
Finished == (l = N + 1) => WriteVerdict(rej, nrej)
=============================================================================
