------------------------------ MODULE Trace_C07 ------------------------------
(* One `Files` event per package: the header's file list, the harness's     *)
(* scan of the independently decompressed archive (and its raw bytes when   *)
(* small), and what Package::files() yielded.                                *)
EXTENDS Cpio, TraceBase, SequencesExt
VARIABLES l, rej, nrej
vars == <<l, rej, nrej>>

IsRegular(m) == (m \div 4096) = 8
Sizes(r) == [i \in 1..Len(r.files) |-> r.files[i].size]

\* the scanner's table is what this specification parses from the raw bytes (small archives)
Strip(e) == IF e.kind = "stripped" THEN [kind |-> e.kind, hdr_at |-> e.hdr_at, index |-> e.index, size |-> e.size, data_at |-> e.data_at]
            ELSE [kind |-> e.kind, hdr_at |-> e.hdr_at, name |-> e.name, namesize |-> e.namesize, mode |-> e.mode, size |-> e.size, data_at |-> e.data_at]
ScanAgrees(r) ==
    Has(r, "archive_bytes") =>
        LET p == Parse(r.archive_bytes, Sizes(r)) IN
        /\ Len(p) = Len(r.ents)
        /\ \A i \in 1..Len(p) : p[i].kind # "bad" /\ Strip(p[i]) = Strip(r.ents[i])

Framing(r) == Framed(r.ents, r.archive_len, Sizes(r)) /\ r.tail_zero = TRUE

\* C07
IterOk(r) ==
    /\ "ok" \in DOMAIN r.iter
    /\ LET want == ExpectedItems(r.ents, r.files)  got == r.iter.ok IN
       /\ Len(got) = Len(want)
       /\ \A i \in 1..Len(want) :
            /\ want[i].file # 0
            /\ got[i].path = r.files[want[i].file].path           \* paired with the file of that path
            /\ got[i].meta_size = r.files[want[i].file].size
            /\ got[i].content_len = want[i].size /\ got[i].content_sha = want[i].sha    \* exactly the stored bytes
            \* for regular files: length = recorded size, digest = recorded digest (rpm records the inode
            \* size for directories and no digest for anything but regular files)
            /\ (IsRegular(r.files[want[i].file].mode) =>
                   /\ got[i].content_len = got[i].meta_size
                   /\ (got[i].meta_digest # "" => got[i].meta_digest = got[i].content_digest))
\* for packages built by this library the sequence of files is the builder's files ordered by path
BuiltOrder(r) == Has(r, "cfg_paths") =>
                   ("ok" \in DOMAIN r.iter /\ [i \in 1..Len(r.iter.ok) |-> r.iter.ok[i].path] = r.cfg_paths)

\* C09 payload part and C08 file digests, for packages the library emitted
Emitted(r) == r.emitted =>
    /\ ArchiveOk(r.ents, r.files)
    /\ MagicOk(r.compressor, r.magic)
FileDigests(r) == r.emitted =>
    LET d == DataEntries(r.ents) IN
    \A i \in 1..Len(d) : FileOf(d[i], r.files) # 0 /\ r.files[FileOf(d[i], r.files)].digest = d[i].sha

\* C08: recorded header / payload / uncompressed-archive digests equal the harness's recomputation
PayloadDigests(r) == (r.emitted /\ Has(r, "dig")) =>
    /\ r.dig.sha256_header.rec = r.dig.sha256_header.calc
    /\ r.dig.payload.rec = r.dig.payload.calc /\ r.dig.payload_algo = 8
    /\ r.dig.payload_alt.rec = r.dig.payload_alt.calc

Whys(r) ==
    IF r.event # "Files" THEN {r.event}
    ELSE (IF ScanAgrees(r) THEN {} ELSE {"harness:scanner disagrees with the specification's parse"})
         \cup (IF Framing(r) THEN {} ELSE {"C09:archive framing"})
         \cup (IF IterOk(r) /\ BuiltOrder(r) THEN {} ELSE {"C07:iteration"})
         \cup (IF Emitted(r) THEN {} ELSE {"C09:archive vs header"})
         \cup (IF FileDigests(r) THEN {} ELSE {"C08:file digest"})
         \cup (IF PayloadDigests(r) THEN {} ELSE {"C08:payload digests"})

Init == l = 1 /\ rej = <<>> /\ nrej = 0
Next == /\ l <= N /\ l' = l + 1
        /\ LET w == Whys(Rec[l]) IN
           IF w = {} THEN UNCHANGED <<rej, nrej>>
           ELSE LET y == NoteReject(rej, nrej, l, SetToSeq(w)) IN rej' = y.rej /\ nrej' = y.nrej
Spec == Init /\ [][Next]_vars
Finished == (l = N + 1) => WriteVerdict(rej, nrej)
=============================================================================
