------------------------------ MODULE Trace_C11 ------------------------------
EXTENDS Determinism, TraceBase
VARIABLES l, rej, nrej
vars == <<l, rej, nrej, emitted>>
R == Rec[l]
CfgIds == {Rec[i].cfg : i \in {j \in 1..N : Rec[j].event = "Run"}}
Init == l = 1 /\ rej = <<>> /\ nrej = 0 /\ DetInit(CfgIds)
Good == UNCHANGED <<rej, nrej>>
Bad(w) == LET y == NoteReject(rej, nrej, l, w) IN rej' = y.rej /\ nrej' = y.nrej
Run == /\ R.event = "Run" /\ l' = l + 1
       /\ LET det == emitted[R.cfg] \in {Unset, R.bytes_sha256}
              clamp == Clamped(R.times, R.source_date)
          IN /\ emitted' = [emitted EXCEPT ![R.cfg] = IF emitted[R.cfg] = Unset THEN R.bytes_sha256 ELSE emitted[R.cfg]]
             /\ IF det /\ clamp THEN Good
                ELSE Bad(IF ~det THEN "not reproducible" ELSE "timestamp later than the source date")
Other == R.event # "Run" /\ l' = l + 1 /\ UNCHANGED emitted /\ Bad(R.event)
Next == l <= N /\ (Run \/ Other)
Spec == Init /\ [][Next]_vars
Finished == (l = N + 1) => WriteVerdict(rej, nrej)
=============================================================================
