------------------------------ MODULE Trace_C11 ------------------------------
EXTENDS Determinism, TraceBase
VARIABLES l, rej, nrej
vars == <<l, rej, nrej, emitted>>
R == Rec[l]
CfgIds == {Rec[i].cfg : i \in {j \in 1..N : "cfg" \in DOMAIN Rec[j]}}
Init == l = 1 /\ rej = <<>> /\ nrej = 0 /\ DetInit(CfgIds)
Good == UNCHANGED <<rej, nrej>>
Bad(w) == LET y == NoteReject(rej, nrej, l, w) IN rej' = y.rej /\ nrej' = y.nrej
Run == /\ R.event = "Run" /\ l' = l + 1
       /\ LET det == emitted[R.cfg] \in {Unset, R.bytes_sha256}
              clamp == Clamped(R.times, R.source_date)
          IN /\ emitted' = [emitted EXCEPT ![R.cfg] = IF emitted[R.cfg] = Unset THEN R.bytes_sha256 ELSE emitted[R.cfg]]
             /\ IF det /\ clamp THEN Good
                ELSE Bad(IF ~det THEN "not reproducible" ELSE "timestamp later than the source date")
\* a build that ends in an error (or a panic - other properties' concern) is an outcome like any other: what the
\* statement excludes is that runs of one configuration end differently
NoPackage == /\ R.event \in {"BuildErr", "Panic"} /\ "cfg" \in DOMAIN R /\ l' = l + 1
             /\ LET tok == "no package: " \o R.event IN
                /\ emitted' = [emitted EXCEPT ![R.cfg] = IF emitted[R.cfg] = Unset THEN tok ELSE emitted[R.cfg]]
                /\ IF emitted[R.cfg] \in {Unset, tok} THEN Good ELSE Bad("not reproducible")
Other == ~(R.event = "Run" \/ (R.event \in {"BuildErr", "Panic"} /\ "cfg" \in DOMAIN R))
         /\ l' = l + 1 /\ UNCHANGED emitted /\ Bad(R.event)
Next == l <= N /\ (Run \/ NoPackage \/ Other)
Spec == Init /\ [][Next]_vars
Finished == (l = N + 1) => WriteVerdict(rej, nrej)
=============================================================================
