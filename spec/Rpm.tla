--------------------------------- MODULE Rpm ---------------------------------
(***************************************************************************)
(* The package life cycle as one state machine, composing what the other   *)
(* modules state separately (signing histories C10, digest decision C03,   *)
(* signature acceptance C02, write / re-parse C01):                         *)
(*                                                                         *)
(*   Build            a fresh package: unsigned, digests true               *)
(*   Sign(k) / Clear  replace the signature header; its header digest is    *)
(*                    recomputed over the main header *as it is now*        *)
(*   SignFail         a signing operation that fails (the signer refuses,   *)
(*                    a wrong passphrase): the package is as it was         *)
(*   Reparse          write + parse: nothing changes                        *)
(*   TamperHeader     a byte of the main header's store is altered in the   *)
(*                    written file (the package still parses)               *)
(*   TamperPayload    a payload byte is altered in the written file         *)
(*   TamperRecDigest  a character of the header SHA-256 *recorded in the    *)
(*                    signature header* is altered in the written file      *)
(*   TamperSigBlob    a character of the OpenPGP signature stored in the    *)
(*                    signature header is altered (signed packages only)    *)
(*                                                                         *)
(* hdrDirty: the main header differs from the one the recorded header       *)
(* digest (and signature) was computed over.  payDirty: the payload differs *)
(* from the one whose digest the main header records; no operation of the   *)
(* library repairs that, because it never rewrites the main header.         *)
(* recDirty / sigDirty: the signature header itself was altered - its       *)
(* recorded header digest, or the signature packet.  Sign and Clear rebuild *)
(* the signature header from scratch, so they (and only they) repair both.  *)
(***************************************************************************)
EXTENDS Naturals, Sequences

CONSTANT Keys
VARIABLES signer, hdrDirty, payDirty, recDirty, sigDirty, steps
rvars == <<signer, hdrDirty, payDirty, recDirty, sigDirty, steps>>

RInit == signer = "none" /\ hdrDirty = FALSE /\ payDirty = FALSE /\ recDirty = FALSE /\ sigDirty = FALSE /\ steps = 0

Tick == steps' = steps + 1
Sign(k)         == signer' = k /\ hdrDirty' = FALSE /\ recDirty' = FALSE /\ sigDirty' = FALSE /\ UNCHANGED payDirty /\ Tick
Clear           == signer' = "none" /\ hdrDirty' = FALSE /\ recDirty' = FALSE /\ sigDirty' = FALSE /\ UNCHANGED payDirty /\ Tick
SignFail        == UNCHANGED <<signer, hdrDirty, payDirty, recDirty, sigDirty>> /\ Tick
Reparse         == UNCHANGED <<signer, hdrDirty, payDirty, recDirty, sigDirty>> /\ Tick
TamperHeader    == hdrDirty' = TRUE /\ UNCHANGED <<signer, payDirty, recDirty, sigDirty>> /\ Tick
TamperPayload   == payDirty' = TRUE /\ UNCHANGED <<signer, hdrDirty, recDirty, sigDirty>> /\ Tick
TamperRecDigest == recDirty' = TRUE /\ UNCHANGED <<signer, hdrDirty, payDirty, sigDirty>> /\ Tick
TamperSigBlob   == signer # "none" /\ sigDirty' = TRUE /\ UNCHANGED <<signer, hdrDirty, payDirty, recDirty>> /\ Tick

\* what every observation must report in a state
DigestsOk      == ~hdrDirty /\ ~payDirty /\ ~recDirty
Verifies(k)    == signer = k /\ DigestsOk /\ ~sigDirty
\* the header digest recorded in the signature header is the digest of the header as it is now
HdrDigestTrue  == ~hdrDirty /\ ~recDirty
Obs == [digests_ok |-> DigestsOk, verifies |-> [k \in Keys |-> Verifies(k)], hdr_digest_true |-> HdrDigestTrue]

\* consequences (checked by MC_Rpm on all histories)
NoVerifyWhenTampered == (hdrDirty \/ payDirty \/ recDirty \/ sigDirty) => \A k \in Keys : ~Verifies(k)
\* a damaged signature packet exists only on a package that carries a signature
SigDirtyOnlySigned == sigDirty => signer # "none"
AtMostOneKey == \A j, k \in Keys : Verifies(j) /\ Verifies(k) => j = k
=============================================================================
