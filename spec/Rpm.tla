--------------------------------- MODULE Rpm ---------------------------------
(***************************************************************************)
(* The package life cycle as one state machine, composing what the other   *)
(* modules state separately (signing histories C10, digest decision C03,   *)
(* signature acceptance C02, write / re-parse C01):                         *)
(*                                                                         *)
(*   Build            a fresh package: unsigned, digests true               *)
(*   Sign(k) / Clear  replace the signature header; its header digest is    *)
(*                    recomputed over the main header *as it is now*        *)
(*   SignFail         a signing operation that fails (the signer refuses,   *)
(*                    a wrong passphrase): the package is as it was         *)
(*   Reparse          write + parse: nothing changes                        *)
(*   TamperHeader     a byte of the main header's store is altered in the   *)
(*                    written file (the package still parses)               *)
(*   TamperPayload    a payload byte is altered in the written file         *)
(*                                                                         *)
(* hdrDirty: the main header differs from the one the recorded header       *)
(* digest (and signature) was computed over.  payDirty: the payload differs *)
(* from the one whose digest the main header records; no operation of the   *)
(* library repairs that, because it never rewrites the main header.         *)
(***************************************************************************)
EXTENDS Naturals, Sequences

CONSTANT Keys
VARIABLES signer, hdrDirty, payDirty, steps
rvars == <<signer, hdrDirty, payDirty, steps>>

RInit == signer = "none" /\ hdrDirty = FALSE /\ payDirty = FALSE /\ steps = 0

Sign(k)       == signer' = k /\ hdrDirty' = FALSE /\ UNCHANGED payDirty /\ steps' = steps + 1
Clear         == signer' = "none" /\ hdrDirty' = FALSE /\ UNCHANGED payDirty /\ steps' = steps + 1
SignFail      == UNCHANGED <<signer, hdrDirty, payDirty>> /\ steps' = steps + 1
Reparse       == UNCHANGED <<signer, hdrDirty, payDirty>> /\ steps' = steps + 1
TamperHeader  == hdrDirty' = TRUE /\ UNCHANGED <<signer, payDirty>> /\ steps' = steps + 1
TamperPayload == payDirty' = TRUE /\ UNCHANGED <<signer, hdrDirty>> /\ steps' = steps + 1

\* what every observation must report in a state
DigestsOk      == ~hdrDirty /\ ~payDirty
Verifies(k)    == signer = k /\ DigestsOk
\* the header digest recorded in the signature header is the digest of the header as it is now
HdrDigestTrue  == ~hdrDirty
Obs == [digests_ok |-> DigestsOk, verifies |-> [k \in Keys |-> Verifies(k)], hdr_digest_true |-> HdrDigestTrue]

\* consequences (checked by MC_Rpm on all histories)
NoVerifyWhenTampered == (hdrDirty \/ payDirty) => \A k \in Keys : ~Verifies(k)
AtMostOneKey == \A j, k \in Keys : Verifies(j) /\ Verifies(k) => j = k
=============================================================================
