----------------------------- MODULE MC_Layout -----------------------------
(* C16 design-level algebra: for every (nindex, dsize) of both headers on a  *)
(* grid covering all residues mod 8, the segment boundaries are strictly     *)
(* increasing, the main header starts 8-aligned relative to the signature    *)
(* header's end, and the padding is the unique value in 0..7 doing so.       *)
EXTENDS Naturals, Integers, TLC
Pad(n, k) == (k - (n % k)) % k
VARIABLES ns, ds, nh, dh
Init == ns \in 0..3 /\ ds \in 0..24 /\ nh \in 0..3 /\ dh \in 0..24
Next == UNCHANGED <<ns, ds, nh, dh>>
Spec == Init /\ [][Next]_<<ns, ds, nh, dh>>
SigAt == 96
SigLen == 16 + 16 * ns + ds
HdrAt == SigAt + SigLen + Pad(ds, 8)
PayloadAt == HdrAt + 16 + 16 * nh + dh
Increasing == 0 < SigAt /\ SigAt < HdrAt /\ HdrAt < PayloadAt
Aligned == HdrAt % 8 = 0 /\ Pad(ds, 8) \in 0..7 /\ (ds + Pad(ds, 8)) % 8 = 0
Unique == \A p \in 0..7 : (ds + p) % 8 = 0 => p = Pad(ds, 8)
=============================================================================
