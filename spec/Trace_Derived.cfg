SPECIFICATION Spec
INVARIANT Finished
CHECK_DEADLOCK FALSE
