------------------------------ MODULE Trace_C15 ------------------------------
EXTENDS Evr, TraceBase
VARIABLES l, rej, nrej
vars == <<l, rej, nrej>>

NevraOk(r) ==
    /\ r.text = FormatNevra(r.x)
    /\ r.norm = NormalNevra(r.x)
    /\ NormalHasEpoch(SubSeq(r.norm, Len(r.x.n) + 2, Len(r.norm)))
    /\ (RealNevra(r.x) => (r.parsed = r.x /\ r.reparsed_eq = TRUE /\ ("norm_eq" \in DOMAIN r => r.norm_eq = TRUE)))

EvrOk(r) ==
    /\ r.text = FormatEvr(r.x)
    /\ r.norm = NormalEvr(r.x)
    /\ NormalHasEpoch(r.norm)
    /\ (RealEvr(r.x) => (r.parsed = r.x /\ r.reparsed_eq = TRUE /\ ("norm_eq" \in DOMAIN r => r.norm_eq = TRUE)))

CtOk(r) == r.text \in CompressionNames /\ r.parse_ok = TRUE /\ r.same = TRUE

EventOk(r) ==
    CASE r.event = "NevraRT" -> NevraOk(r)
      [] r.event = "EvrRT" -> EvrOk(r)
      [] r.event = "CtRT" -> CtOk(r)
      [] r.event = "ParseAny" -> r.returned = TRUE       \* no-panic family
      [] OTHER -> FALSE

Init == l = 1 /\ rej = <<>> /\ nrej = 0
Next == /\ l <= N /\ l' = l + 1
        /\ IF EventOk(Rec[l]) THEN UNCHANGED <<rej, nrej>>
           ELSE LET y == NoteReject(rej, nrej, l, Rec[l].event) IN rej' = y.rej /\ nrej' = y.nrej
Spec == Init /\ [][Next]_vars
Finished == (l = N + 1) => WriteVerdict(rej, nrej)
=============================================================================
