----------------------------- MODULE MC_Digests -----------------------------
EXTENDS Digests, TLC
VARIABLES d, pc, out
Init == d \in Rows /\ pc = 1 /\ out = "running"
\* small-step: one digest per step
Next == /\ out = "running"
        /\ LET s == Steps[pc] IN
           IF s = "done" THEN out' = "ok" /\ UNCHANGED <<d, pc>>
           ELSE IF s = "payload" THEN
                IF ~PayloadRecorded(d) THEN pc' = pc + 1 /\ UNCHANGED <<d, out>>
                ELSE IF d.algo # "sha256" \/ d.payload = "empty" THEN out' = "othererr" /\ UNCHANGED <<d, pc>>
                ELSE IF d.payload = "mismatch" THEN out' = "DigestMismatchError" /\ UNCHANGED <<d, pc>>
                ELSE pc' = pc + 1 /\ UNCHANGED <<d, out>>
           ELSE IF d[s] = "mismatch" THEN out' = "DigestMismatchError" /\ UNCHANGED <<d, pc>>
           ELSE pc' = pc + 1 /\ UNCHANGED <<d, out>>
Spec == Init /\ [][Next]_<<d, pc, out>>
Refines == out # "running" => out \in Allowed(d)
BigStep == out # "running" => out = StepMachine(d, 1)
\* the iff of the statement: success exactly when nothing recorded differs (outside the silent case)
Iff == (out = "ok" /\ ~Silent(d)) => (~Wrong(d) /\ ~AlgoBad(d))
NeverOkUnsupported == AlgoBad(d) => out # "ok"
AllowedNonEmpty == Allowed(d) # {}
=============================================================================
