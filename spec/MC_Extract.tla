------------------------------ MODULE MC_Extract ------------------------------
(* Every package of up to MaxEntries entries over a hostile alphabet is      *)
(* extracted entry by entry.  With Design = "safe" Contained is an invariant; *)
(* with Design = "naive" TLC produces the minimal escaping packages           *)
(* (MC_Extract_naive.cfg must FAIL).                                          *)
EXTENDS Extract, TLC
CONSTANTS Design, MaxEntries
\* <<".", "a">> is a second spelling of a (entries are paired with metadata by name, so a link and a file
\* at one location need two spellings); the last target is a dangling link to a file outside
\* <<"..", "fresh", "x">> needs a directory that does not exist yet outside; <<"a", "sub", "x">> lies two levels below a
\* possible link
Paths == { <<"a">>, <<".", "a">>, <<"b">>, <<"a", "b">>, <<"..", "out", "victim">>, <<"a", "..", "..", "out", "x">>,
           <<"..", "fresh", "x">>, <<"a", "sub", "x">>, <<".">>,
           <<"c.tmp">>, <<"c.txt">> }                  \* two names that share a stem      \* <<".">> names the target directory itself
Targets == { [abs |-> FALSE, comps |-> <<"..", "out">>], [abs |-> TRUE, comps |-> <<"out">>], [abs |-> FALSE, comps |-> <<"b">>],
             [abs |-> FALSE, comps |-> <<"..", "out", "new">>], [abs |-> TRUE, comps |-> <<"out", "new2">>] }
Entries == { [comps |-> p, kind |-> "file", data |-> "new", target |-> [abs |-> FALSE, comps |-> <<>>]] : p \in Paths }
           \cup { [comps |-> p, kind |-> "dir", data |-> "", target |-> [abs |-> FALSE, comps |-> <<>>]] : p \in Paths }
           \cup { [comps |-> p, kind |-> "link", data |-> "", target |-> t] : p \in {<<"a">>, <<"b">>, <<".">>, <<"c.tmp">>}, t \in Targets }
           \* links *below* a possible link: removing what is there and planting a link are effects as well
           \cup { [comps |-> p, kind |-> "link", data |-> "", target |-> t] : p \in {<<"a", "victim">>, <<"a", "planted">>},
                                                                             t \in {[abs |-> FALSE, comps |-> <<"b">>], [abs |-> TRUE, comps |-> <<"out", "new2">>]} }
           \cup { [comps |-> <<"a">>, kind |-> "other", data |-> "", target |-> [abs |-> FALSE, comps |-> <<>>]] }
VARIABLES fs, todo, ok
Init == fs = Fs0 /\ ok = TRUE /\ todo \in UNION { [1..n -> Entries] : n \in 1..MaxEntries }
Next == /\ ok /\ todo # <<>>
        /\ LET s == Step(Design, fs, Head(todo)) IN fs' = s.fs /\ ok' = s.ok
        /\ todo' = Tail(todo)
Spec == Init /\ [][Next]_<<fs, todo, ok>>
ContainedInv == Contained(Fs0, fs)
VictimIntact == NodeAt(fs, <<"out", "victim">>) = File(<<"out", "victim">>, "precious")
=============================================================================
