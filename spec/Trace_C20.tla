------------------------------ MODULE Trace_C20 ------------------------------
EXTENDS Timestamp, TraceBase
VARIABLES l, rej, nrej
vars == <<l, rej, nrej>>

Inst(r) == [neg |-> r.neg, d |-> r.d, nanos |-> r.nanos]
OutOf(o) == [kind |-> o.kind, v |-> IF o.kind = "Ok" THEN o.v ELSE <<>>]

WellFormed(r) == /\ Len(r.d) = 5 /\ \A k \in 1..5 : r.d[k] \in 0..65535
                 /\ r.nanos \in 0..999999999 /\ (r.neg => ~AllZero(r.d))

TsOk(r) == WellFormed(r) /\ OutOf(r.out) = Convert(Inst(r), 2)

\* two conversions of instants x <= y (as the harness constructed them): the spec re-derives the
\* order from the digits and requires consistently ordered outcomes
PairOk(r) ==
    /\ WellFormed(r.x) /\ WellFormed(r.y)
    /\ OutOf(r.x.out) = Convert(Inst(r.x), 2) /\ OutOf(r.y.out) = Convert(Inst(r.y), 2)
    /\ (ILeq(Inst(r.x), Inst(r.y)) => OutLeq(OutOf(r.x.out), OutOf(r.y.out)))

EventOk(r) ==
    CASE r.event = "Ts" -> TsOk(r)
      [] r.event = "TsPair" -> PairOk(r)
      [] OTHER -> FALSE

Init == l = 1 /\ rej = <<>> /\ nrej = 0
Next == /\ l <= N /\ l' = l + 1
        /\ IF EventOk(Rec[l]) THEN UNCHANGED <<rej, nrej>>
           ELSE LET x == NoteReject(rej, nrej, l, Rec[l].event) IN rej' = x.rej /\ nrej' = x.nrej
Spec == Init /\ [][Next]_vars
Finished == (l = N + 1) => WriteVerdict(rej, nrej)
=============================================================================
