SPECIFICATION Spec
CONSTANTS
  Design = "mkdirfirst"
  MaxEntries = 2
INVARIANTS ContainedInv VictimIntact
CHECK_DEADLOCK FALSE
