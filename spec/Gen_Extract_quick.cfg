SPECIFICATION GSpec
CONSTANTS
  Design = "safe"
  MaxEntries = 2
CHECK_DEADLOCK FALSE
