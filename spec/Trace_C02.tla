------------------------------ MODULE Trace_C02 ------------------------------
(* Trace validation for C02: replays the recorded calls through the         *)
(* Signature state machine.  An event no action allows is recorded and the  *)
(* rest of its episode skipped.                                              *)
EXTENDS Signature, TraceBase
VARIABLES l, rej, nrej, skipping
vars == <<l, rej, nrej, skipping, sigvars>>

R == Rec[l]
Init == l = 1 /\ rej = <<>> /\ nrej = 0 /\ skipping = FALSE /\ SigInit

Step(ok) ==   \* consume the event; if it is not a behaviour of the specification, note it
    /\ l' = l + 1
    /\ IF ok THEN UNCHANGED <<rej, nrej>>
       ELSE LET y == NoteReject(rej, nrej, l, R.event) IN rej' = y.rej /\ nrej' = y.nrej

TBegin == /\ R.event = "Begin"
          /\ Begin([digests_ok |-> R.digests_ok, hdr_tok |-> R.hdr_tok, hdrpayload_tok |-> R.hdrpayload_tok])
          /\ skipping' = FALSE /\ Step(TRUE)
TConsult == /\ R.event = "Consult" /\ ~skipping
            /\ Consult(R.tag, R.data, R.verdict) /\ UNCHANGED skipping /\ Step(TRUE)
TReturnOk == /\ R.event = "Return" /\ R.result = "ok" /\ ~skipping
             /\ IF OkAllowed THEN ReturnOk /\ Step(TRUE) ELSE ReturnErr /\ Step(FALSE)   \* an unearned success
             /\ UNCHANGED skipping
TReturnErr == /\ R.event = "Return" /\ R.result = "err" /\ ~skipping
              /\ ReturnErr /\ UNCHANGED skipping /\ Step(TRUE)
\* tampering family: a change of header / payload bytes that changes what is parsed must make
\* verification fail; stateless
TTampered == /\ R.event = "Tampered"
             /\ UNCHANGED <<sigvars, skipping>>
             /\ Step(R.verify # "panic" /\ ((R.parse_ok /\ R.value_changed) => R.verify = "err"))
\* a package whose signature entries hold no valid signature (garbage, a non-signature packet, half a packet, the
\* header-only signature under the header+payload tag), checked with the real verifier: it cannot have accepted one
TNoSignature == /\ R.event = "NoSignature"
                /\ UNCHANGED <<sigvars, skipping>>
                /\ Step(R.verify = "err")
\* a package whose recorded header digest is not the digest of its header (the genuine signatures beside it, the
\* signature index in any order): "every digest recorded in the package matches" fails, so verification must
TWrongDigest == /\ R.event = "WrongDigest"
                /\ UNCHANGED <<sigvars, skipping>>
                /\ Step(R.verify = "err")
\* a carrier the harness could not use (nothing is claimed about it here)
TSkipped == R.event = "CarrierSkipped" /\ UNCHANGED <<sigvars, skipping>> /\ Step(TRUE)
TOther == /\ R.event \notin {"Begin", "Consult", "Return", "Tampered", "CarrierSkipped", "NoSignature", "WrongDigest"} \/ (skipping /\ R.event \in {"Consult", "Return"})
             \/ (R.event = "Return" /\ R.result \notin {"ok", "err"})
          /\ UNCHANGED sigvars
          /\ IF skipping /\ R.event \in {"Consult", "Return"} THEN UNCHANGED skipping /\ Step(TRUE)
             ELSE skipping' = TRUE /\ Step(FALSE)          \* panic or unknown event: abandon the episode

Next == l <= N /\ (TBegin \/ TConsult \/ TReturnOk \/ TReturnErr \/ TTampered \/ TNoSignature \/ TWrongDigest \/ TSkipped \/ TOther)
Spec == Init /\ [][Next]_vars
Finished == (l = N + 1) => WriteVerdict(rej, nrej)
=============================================================================
