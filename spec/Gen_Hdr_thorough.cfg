SPECIFICATION Spec
CONSTANT Thorough = TRUE
INVARIANT Count
CHECK_DEADLOCK FALSE
