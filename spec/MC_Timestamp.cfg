SPECIFICATION Spec
INVARIANTS Exact OrderOk Monotone
CHECK_DEADLOCK FALSE
