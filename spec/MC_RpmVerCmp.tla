---------------------------- MODULE MC_RpmVerCmp ----------------------------
(* Exhaustive check of the version-order specification itself on a bounded  *)
(* domain: (1) the small-step machine terminates with the big-step result,  *)
(* (2) RpmVerCmp agrees with KeyCmp, (3) antisymmetry, reflexivity,         *)
(* (4) transitivity on all triples of a smaller domain.                     *)
EXTENDS RpmVerCmp, TLC
CONSTANTS Sigma, MaxLen, TriSigma, TriMaxLen, Shard, Shards

Dom    == 0 .. (DomSize(Len(Sigma), MaxLen) - 1)
S(i)   == NthStr(Sigma, i)
TDom   == 0 .. (DomSize(Len(TriSigma), TriMaxLen) - 1)
T(i)   == NthStr(TriSigma, i)

\* alphabets (cfg files select with <-):  0 1 9 a b Z . - _ ~ ^ e-acute
Sigma12 == <<48, 49, 57, 97, 98, 90, 46, 45, 95, 126, 94, 233>>
Sigma8  == <<48, 49, 97, 90, 46, 126, 94, 233>>
Sigma5  == <<48, 97, 46, 126, 94>>

VARIABLES st, a, b
vars == <<st, a, b>>

Init == /\ a \in {i \in Dom : i % Shards = Shard} /\ b \in Dom
        /\ st = St(S(a), S(b), Running)
Next == st.res = Running /\ st' = Step(st) /\ UNCHANGED <<a, b>>
Spec == Init /\ [][Next]_vars

\* (1) whenever the machine has stopped, its result is the big-step value; it always stops
\*     within Len+1 iterations (each running step strictly shortens one + two or ends)
StopsWithResult == st.res # Running => st.res = Run(St(S(a), S(b), Running))
Progress == st.res = Running => Len(st.one) + Len(st.two) <= Len(S(a)) + Len(S(b))
\* (2),(3) on the initial pair (evaluated once per pair: all other states share a, b)
Agree   == (st.one = S(a) /\ st.two = S(b)) =>
              /\ RpmVerCmp(S(a), S(b)) = KeyCmp(S(a), S(b))
              /\ RpmVerCmp(S(a), S(b)) = -RpmVerCmp(S(b), S(a))
              /\ RpmVerCmp(S(a), S(a)) = 0
Transitive ==
    (a \in TDom /\ b \in TDom /\ st.one = S(a) /\ st.two = S(b)) =>
       \A c \in TDom :
          LET ab == RpmVerCmp(T(a), T(b))  bc == RpmVerCmp(T(b), T(c))  ac == RpmVerCmp(T(a), T(c))
          IN (ab <= 0 /\ bc <= 0 => ac <= 0) /\ (ab >= 0 /\ bc >= 0 => ac >= 0)
=============================================================================
