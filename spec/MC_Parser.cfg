SPECIFICATION Spec
CONSTANT Avail = 36
INVARIANTS NeverOutOfBounds BigStepAgrees
CHECK_DEADLOCK FALSE
