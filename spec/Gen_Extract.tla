------------------------------ MODULE Gen_Extract ------------------------------
(* GEN for C12: every package of the MC alphabet, with what the model says   *)
(* about it: whether the naive extractor escapes on it (the minimal hostile   *)
(* packages) and whether it is benign (the safe extractor accepts it).        *)
EXTENDS MC_Extract, Json, IOUtils, SequencesExt
Pkgs == UNION { [1..n -> Entries] : n \in 1..MaxEntries }
\* flat: the same paths stored with "/" as the only directory name and the whole path as base name
Case(p, flat) == [entries |-> p, flat |-> flat,
            naive_escapes |-> ~Contained(Fs0, Run("naive", Fs0, p).fs),
            benign |-> Run("safe", Fs0, p).ok]
VARIABLE done
GInit == done = FALSE /\ fs = Fs0 /\ todo = <<>> /\ ok = TRUE
GNext == ~done /\ done' = TRUE /\ UNCHANGED <<fs, todo, ok>> /\ ndJsonSerialize(IOEnv.OUT, SetToSeq({Case(p, FALSE) : p \in Pkgs} \cup {Case(p, TRUE) : p \in {q \in Pkgs : \E i \in 1..Len(q) : Len(q[i].comps) > 1}}))
GSpec == GInit /\ [][GNext]_<<done, fs, todo, ok>>
=============================================================================
