------------------------------ MODULE Gen_Extract ------------------------------
(* GEN for C12: every package of the MC alphabet, with what the model says   *)
(* about it: whether the naive extractor escapes on it (the minimal hostile   *)
(* packages) and whether it is benign (the safe extractor accepts it).        *)
EXTENDS MC_Extract, Json, IOUtils, SequencesExt
Pkgs == UNION { [1..n -> Entries] : n \in 1..MaxEntries }
Case(p) == [entries |-> p,
            naive_escapes |-> ~Contained(Fs0, Run("naive", Fs0, p).fs),
            benign |-> Run("safe", Fs0, p).ok]
VARIABLE done
GInit == done = FALSE /\ fs = Fs0 /\ todo = <<>> /\ ok = TRUE
GNext == ~done /\ done' = TRUE /\ UNCHANGED <<fs, todo, ok>> /\ ndJsonSerialize(IOEnv.OUT, SetToSeq({Case(p) : p \in Pkgs}))
GSpec == GInit /\ [][GNext]_<<done, fs, todo, ok>>
=============================================================================
