------------------------------ MODULE Gen_Extract ------------------------------
(* GEN for C12: every package of the MC alphabet, with what the model says   *)
(* about it: whether the naive extractor escapes on it (the minimal hostile   *)
(* packages) and whether it is benign (the safe extractor accepts it).        *)
EXTENDS MC_Extract, Json, IOUtils, SequencesExt
Pkgs == UNION { [1..n -> Entries] : n \in 1..MaxEntries }
\* flat: the same paths stored with "/" as the only directory name and the whole path as base name;
\* abs:  stored as absolute base names that name <jail>/<path> (outside the target unless joined below it)
Case(p, mode) == [entries |-> p, mode |-> mode, flat |-> mode # "plain",
            naive_escapes |-> ~Contained(Fs0, Run("naive", Fs0, p).fs),
            benign |-> Run("safe", Fs0, p).ok]
\* chains of links, which need three entries whatever MaxEntries is: b leads outside, a leads to b by a plain relative
\* name (harmless on its own), and something is put below a
LinkE(p, t) == [comps |-> p, kind |-> "link", data |-> "", target |-> t]
FileE(p) == [comps |-> p, kind |-> "file", data |-> "new", target |-> [abs |-> FALSE, comps |-> <<>>]]
DirE(p) == [comps |-> p, kind |-> "dir", data |-> "", target |-> [abs |-> FALSE, comps |-> <<>>]]
ChainPkgs == { <<LinkE(<<"b">>, t), LinkE(<<"a">>, [abs |-> FALSE, comps |-> <<"b">>]), x>> :
                  t \in {[abs |-> FALSE, comps |-> <<"..", "out">>], [abs |-> TRUE, comps |-> <<"out">>]},
                  x \in {FileE(<<"a", "b">>), FileE(<<"a", "sub", "x">>), FileE(<<"a", "victim">>), DirE(<<"a", "b">>),
                         LinkE(<<"a", "victim">>, [abs |-> FALSE, comps |-> <<"b">>])} }
             \cup { <<LinkE(<<"a">>, [abs |-> FALSE, comps |-> <<"b">>]), LinkE(<<"b">>, [abs |-> TRUE, comps |-> <<"out">>]), FileE(<<"a", "victim">>)>> }
VARIABLE done
GInit == done = FALSE /\ fs = Fs0 /\ todo = <<>> /\ ok = TRUE
GNext == ~done /\ done' = TRUE /\ UNCHANGED <<fs, todo, ok>> /\ ndJsonSerialize(IOEnv.OUT, SetToSeq({Case(p, "plain") : p \in Pkgs} \cup {Case(p, "flat") : p \in {q \in Pkgs : \E i \in 1..Len(q) : Len(q[i].comps) > 1}}
                                                    \cup {Case(p, "abs") : p \in {q \in Pkgs : Len(q) <= 2}}
                                                    \cup {Case(p, "plain") : p \in ChainPkgs} \cup {Case(p, "flat") : p \in ChainPkgs}))
GSpec == GInit /\ [][GNext]_<<done, fs, todo, ok>>
=============================================================================
