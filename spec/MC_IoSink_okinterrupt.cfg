SPECIFICATION Spec
CONSTANTS
  Segs <- SegsDef
  Design = "okinterrupt"
  MaxResp = 8
INVARIANT Safe
CHECK_DEADLOCK FALSE
