SPECIFICATION Spec
CONSTANTS
  Design = "safe"
  MaxEntries = 2
INVARIANTS ContainedInv VictimIntact
CHECK_DEADLOCK FALSE
