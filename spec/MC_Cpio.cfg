SPECIFICATION Spec
INVARIANTS RoundTrip Aligned
CHECK_DEADLOCK FALSE
