---------------------------- MODULE HeaderEncode ----------------------------
(***************************************************************************)
(* The writer's side of the header format: a typed header (a sequence of   *)
(* entries) is laid out as rpm lays it out - entries in the given order,   *)
(* each aligned to its type, the region entry first in the index and its   *)
(* trailer last in the store.  Together with HeaderFormat this gives the   *)
(* specification its own round trip: Decode(Encode(h)) = h, and Encode(h)  *)
(* passes the loading rules.                                               *)
(*                                                                         *)
(* A typed entry is [tag, type, items]; an item is a byte sequence: one    *)
(* string (without its NUL) for the string types, Width(type) bytes for    *)
(* the integer types, one byte for BIN / CHAR / INT8.                      *)
(***************************************************************************)
EXTENDS HeaderFormat

Be16(v) == <<v \div 256, v % 256>>
Be32(v) == IF v >= 0 THEN <<v \div 16777216, (v \div 65536) % 256, (v \div 256) % 256, v % 256>>
           ELSE LET y == (0 - v) - 1 IN          \* two's complement: the bytes of NOT y
                <<255 - (y \div 16777216), 255 - ((y \div 65536) % 256), 255 - ((y \div 256) % 256), 255 - (y % 256)>>
Zeros(n) == [i \in 1..n |-> 0]

IsStrType(t) == t \in {TString, TStrArr, TI18n}

RECURSIVE Flat(_, _)
Flat(items, str) == IF items = <<>> THEN <<>>
                    ELSE Head(items) \o (IF str THEN <<0>> ELSE <<>>) \o Flat(Tail(items), str)

IndexEntry(tag, type, off, count) == Be32(tag) \o Be32(type) \o Be32(off) \o Be32(count)

\* lay out entries es one after another starting at store offset `off`:
\* the result is [index |-> bytes, store |-> bytes]
RECURSIVE Lay(_, _)
Lay(es, off) ==
    IF es = <<>> THEN [index |-> <<>>, store |-> <<>>]
    ELSE LET e == Head(es)
             pad == Pad(off, Align(e.type))
             data == Flat(e.items, IsStrType(e.type))
             rest == Lay(Tail(es), off + pad + Len(data))
         IN [index |-> IndexEntry(e.tag, e.type, off + pad, Len(e.items)) \o rest.index,
             store |-> Zeros(pad) \o data \o rest.store]

Encode(R, es) ==
    LET n == Len(es) + 1
        lay == Lay(es, 0)
        dl == Len(lay.store) + 16
    IN <<142, 173, 232, 1, 0, 0, 0, 0>> \o Be32(n) \o Be32(dl)
       \o IndexEntry(R, TBin, Len(lay.store), 16) \o lay.index
       \o lay.store \o IndexEntry(R, TBin, 0 - 16 * n, 16)


\* a header whose region covers only es, with further ("dribble") entries ds appended behind it
EncodeDribble(R, es, ds) ==
    LET ril == Len(es) + 1
        n == ril + Len(ds)
        lay == Lay(es, 0)
        rdl == Len(lay.store) + 16
        dlay == Lay(ds, rdl)
        dl == rdl + Len(dlay.store)
    IN <<142, 173, 232, 1, 0, 0, 0, 0>> \o Be32(n) \o Be32(dl)
       \o IndexEntry(R, TBin, Len(lay.store), 16) \o lay.index \o dlay.index
       \o lay.store \o IndexEntry(R, TBin, 0 - 16 * ril, 16) \o dlay.store

---------------------------------------------------------------------------
(* the reader's side, from HeaderFormat's decoding operators *)
RECURSIVE Chop(_, _)
Chop(bytes, w) == IF bytes = <<>> THEN <<>> ELSE <<SubSeq(bytes, 1, w)>> \o Chop(SubSeq(bytes, w + 1, Len(bytes)), w)

DecodeEntry(b, h, k) ==
    LET e == Entry(b, h, k)
        s0 == StoreAt(b, h)
        lim == s0 + DSize(b, h)
    IN [tag |-> e.tag, type |-> e.type,
        items |-> IF IsStrType(e.type) THEN StrList(b, s0 + e.offset, lim, e.count)
                  ELSE Chop(ByteList(b, s0 + e.offset, Width(e.type) * e.count), Width(e.type))]

Decode(b, h) == [k \in 1..(NIndex(b, h) - 1) |-> DecodeEntry(b, h, k + 1)]

\* well-formed typed headers: what the encoder may be given
WellTyped(es) ==
    /\ \A i \in 1..Len(es) :
         /\ es[i].tag >= 100 /\ es[i].type \in 1..9 /\ Len(es[i].items) >= 1
         /\ (es[i].type = TString => Len(es[i].items) = 1)
         /\ \A j \in 1..Len(es[i].items) :
              IF IsStrType(es[i].type) THEN \A x \in 1..Len(es[i].items[j]) : es[i].items[j][x] \in 1..255
              ELSE Len(es[i].items[j]) = Width(es[i].type) /\ \A x \in 1..Width(es[i].type) : es[i].items[j][x] \in 0..255
    /\ \A i \in 2..Len(es) : es[i - 1].tag < es[i].tag
=============================================================================
