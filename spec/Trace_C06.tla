------------------------------ MODULE Trace_C06 ------------------------------
(* Each Build event carries the abstract configuration and everything read  *)
(* back from the written-and-reparsed package; the specification names the  *)
(* fields that do not read back as supplied.                                 *)
EXTENDS Builder, TraceBase
VARIABLES l, rej, nrej
vars == <<l, rej, nrej>>

Get(r, a) == LET k == CHOOSE j \in 1..Len(r.gets) : r.gets[j].acc = a IN r.gets[k].res
OkIs(res, v) == "ok" \in DOMAIN res /\ res.ok = v

ScalarFields == << <<"name", "get_name">>, <<"version", "get_version">>, <<"license", "get_license">>,
                   <<"arch", "get_arch">>, <<"summary", "get_summary">> >>
OptFields == << <<"release", "get_release">>, <<"epoch", "get_epoch">>, <<"description", "get_description">>,
                <<"vendor", "get_vendor">>, <<"packager", "get_packager">>, <<"group", "get_group">>,
                <<"url", "get_url">>, <<"vcs", "get_vcs">>, <<"cookie", "get_cookie">>, <<"build_host", "get_build_host">> >>
DepKinds == << <<"provides", "get_provides">>, <<"requires", "get_requires">>, <<"conflicts", "get_conflicts">>,
               <<"obsoletes", "get_obsoletes">>, <<"recommends", "get_recommends">>, <<"suggests", "get_suggests">>,
               <<"enhances", "get_enhances">>, <<"supplements", "get_supplements">> >>
ScriptAcc(k) == "get_" \o k \o "_script"

BadScalars(r) == {ScalarFields[i][1] : i \in {j \in 1..Len(ScalarFields) : ~OkIs(Get(r, ScalarFields[j][2]), r.cfg[ScalarFields[j][1]])}}
BadOpts(r) == {OptFields[i][1] : i \in {j \in 1..Len(OptFields) :
                   IsSome(r.cfg[OptFields[j][1]]) /\ ~OkIs(Get(r, OptFields[j][2]), r.cfg[OptFields[j][1]].some)}}
ScriptOk(s, res) ==
    /\ "ok" \in DOMAIN res
    /\ res.ok.script = s.script
    /\ (IsSome(s.flags) => res.ok.flags = [some |-> s.flags.some])
    /\ ((IsSome(s.prog) /\ s.prog.some # <<>>) => res.ok.prog = [some |-> s.prog.some])
BadScripts(r) == {r.cfg.scripts[i].kind : i \in {j \in 1..Len(r.cfg.scripts) :
                     ~ScriptOk(r.cfg.scripts[j], Get(r, ScriptAcc(r.cfg.scripts[j].kind)))}}
BadDeps(r) == {DepKinds[i][1] : i \in {j \in 1..Len(DepKinds) :
                  LET res == Get(r, DepKinds[j][2]) IN
                  ~("ok" \in DOMAIN res /\ SubSeqOf(StripKind(DepsOfKind(r.cfg, DepKinds[j][1])), res.ok))}}
ChangelogOk(r) == LET res == Get(r, "get_changelog_entries") IN "ok" \in DOMAIN res /\ res.ok = r.cfg.changelog
FilesOk(r) ==
    LET want == FileList(r.files) IN
    /\ "ok" \in DOMAIN r.entries
    /\ Len(r.entries.ok) = Len(want)
    /\ \A i \in 1..Len(want) : FileMatches(want[i], r.entries.ok[i], r.cfg)
BadFiles(r) ==
    IF "ok" \notin DOMAIN r.entries \/ Len(r.entries.ok) # Len(r.files) THEN {"files:count"}
    ELSE LET want == FileList(r.files) IN
         {"file:" \o ToString(i) : i \in {j \in 1..Len(want) : ~FileMatches(want[j], r.entries.ok[j], r.cfg)}}

DepCtorOk(r) == /\ r.ctor \in DOMAIN DepSense
                /\ r.flags = DepSense[r.ctor]
                /\ r.name = DepName(r.ctor, <<110>>)
                /\ r.version = (IF r.ctor \in Versioned THEN <<49>> ELSE <<>>)
Whys(r) ==
    IF r.event = "DepCtor" THEN (IF DepCtorOk(r) THEN {} ELSE {"DepCtor:" \o r.ctor})
    ELSE IF r.event # "Build" THEN {r.event}
    ELSE BadScalars(r) \cup BadOpts(r) \cup {"script:" \o k : k \in BadScripts(r)} \cup {"deps:" \o k : k \in BadDeps(r)}
         \cup (IF ChangelogOk(r) THEN {} ELSE {"changelog"}) \cup BadFiles(r)

Init == l = 1 /\ rej = <<>> /\ nrej = 0
Next == /\ l <= N /\ l' = l + 1
        /\ LET w == Whys(Rec[l]) IN
           IF w = {} THEN UNCHANGED <<rej, nrej>>
           ELSE LET y == NoteReject(rej, nrej, l, SetToSeq(w)) IN rej' = y.rej /\ nrej' = y.nrej
Spec == Init /\ [][Next]_vars
Finished == (l = N + 1) => WriteVerdict(rej, nrej)
=============================================================================
