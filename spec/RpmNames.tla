------------------------------ MODULE RpmNames ------------------------------
(* GENERATED: names the specification compares against header strings, as byte sequences  *)
(* (TLC cannot index strings).  rpmlib() feature names from rpm's rpmlibProvides table.     *)
S_CompressedFileNames == <<114, 112, 109, 108, 105, 98, 40, 67, 111, 109, 112, 114, 101, 115, 115, 101, 100, 70, 105, 108, 101, 78, 97, 109, 101, 115, 41>>   \* rpmlib(CompressedFileNames)
S_FileDigests == <<114, 112, 109, 108, 105, 98, 40, 70, 105, 108, 101, 68, 105, 103, 101, 115, 116, 115, 41>>   \* rpmlib(FileDigests)
S_PayloadFilesHavePrefix == <<114, 112, 109, 108, 105, 98, 40, 80, 97, 121, 108, 111, 97, 100, 70, 105, 108, 101, 115, 72, 97, 118, 101, 80, 114, 101, 102, 105, 120, 41>>   \* rpmlib(PayloadFilesHavePrefix)
S_PayloadIsZstd == <<114, 112, 109, 108, 105, 98, 40, 80, 97, 121, 108, 111, 97, 100, 73, 115, 90, 115, 116, 100, 41>>   \* rpmlib(PayloadIsZstd)
S_PayloadIsXz == <<114, 112, 109, 108, 105, 98, 40, 80, 97, 121, 108, 111, 97, 100, 73, 115, 88, 122, 41>>   \* rpmlib(PayloadIsXz)
S_PayloadIsBzip2 == <<114, 112, 109, 108, 105, 98, 40, 80, 97, 121, 108, 111, 97, 100, 73, 115, 66, 122, 105, 112, 50, 41>>   \* rpmlib(PayloadIsBzip2)
S_FileCaps == <<114, 112, 109, 108, 105, 98, 40, 70, 105, 108, 101, 67, 97, 112, 115, 41>>   \* rpmlib(FileCaps)
S_LargeFiles == <<114, 112, 109, 108, 105, 98, 40, 76, 97, 114, 103, 101, 70, 105, 108, 101, 115, 41>>   \* rpmlib(LargeFiles)
S_Zstd == <<122, 115, 116, 100>>   \* zstd
S_Xz == <<120, 122>>   \* xz
S_Bzip2 == <<98, 122, 105, 112, 50>>   \* bzip2
S_Gzip == <<103, 122, 105, 112>>   \* gzip
S_NoneC == <<110, 111, 110, 101>>   \* none
S_TrailerName == <<84, 82, 65, 73, 76, 69, 82, 33, 33, 33>>   \* TRAILER!!!
=============================================================================
