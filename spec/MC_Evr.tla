------------------------------- MODULE MC_Evr -------------------------------
(* Design-level theorem behind C15: right-splitting is unambiguous on real  *)
(* component values -- ParseNevra(FormatNevra(x)) = x, ParseEvr(FormatEvr(x)) = x, and the   *)
(* normalised forms parse back to x with the epoch made explicit.           *)
EXTENDS Evr, TLC
LOCAL INSTANCE RpmVerCmp
CONSTANTS NameLen
NameS == <<97, 49, 45, 46>>            \* a 1 - .
VerS  == <<49, 46, 97, 126, 94>>       \* 1 . a ~ ^
RelS  == <<49, 46, 97>>                \* 1 . a
Epochs == {<<>>, <<48>>, <<55>>, <<49, 50>>}
Arches == {<<120>>, <<120, 56, 54, 95, 54, 52>>, <<110, 111, 97, 114, 99, 104>>}
Names    == {NthStr(NameS, i) : i \in 1 .. (DomSize(4, NameLen) - 1)}
Versions == {NthStr(VerS, i) : i \in 1 .. (DomSize(5, 2) - 1)}
Releases == {NthStr(RelS, i) : i \in 1 .. (DomSize(3, 2) - 1)}
VARIABLE x
Init == x \in [n : Names, e : Epochs, v : Versions, r : Releases, a : Arches]
Next == UNCHANGED x
Spec == Init /\ [][Next]_x
AllReal == RealNevra(x)
RoundTrip == /\ ParseNevra(FormatNevra(x)) = x
             /\ ParseEvr(FormatEvr(x)) = Evr3(x)
Normal == LET p == ParseNevra(NormalNevra(x)) IN
          /\ p.n = x.n /\ p.v = x.v /\ p.r = x.r /\ p.a = x.a
          /\ p.e = (IF x.e = <<>> THEN <<48>> ELSE x.e)
          /\ NormalHasEpoch(NormalEvr(x))
=============================================================================
