SPECIFICATION Spec
CONSTANTS
  Segs <- SegsDef
  Design = "single"
  MaxResp = 8
INVARIANT Safe
CHECK_DEADLOCK FALSE
