SPECIFICATION Spec
CONSTANT NameLen = 2
INVARIANTS AllReal RoundTrip Normal
CHECK_DEADLOCK FALSE
