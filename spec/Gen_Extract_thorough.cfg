SPECIFICATION GSpec
CONSTANTS
  Design = "safe"
  MaxEntries = 3
CHECK_DEADLOCK FALSE
