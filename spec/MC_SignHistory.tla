--------------------------- MODULE MC_SignHistory ---------------------------
(* All histories up to MaxLen from both kinds of start state; the state     *)
(* machine and the functional fold used for case generation agree, and at   *)
(* most one key verifies in any state.                                       *)
EXTENDS SignHistory, FiniteSets, TLC
CONSTANTS MaxLen
VARIABLE start
Init == start \in {"none", "foreign"} /\ signer = start /\ hist = <<>>
Next == /\ Len(hist) < MaxLen /\ UNCHANGED start
        /\ ((\E k \in Keys : Sign(k)) \/ Clear \/ Reparse)
Spec == Init /\ [][Next]_<<shvars, start>>
FoldAgrees == signer = Fold(start, hist)
AtMostOne == Cardinality({k \in Keys : Obs(signer).verifies[k]}) <= 1
LastSignerWins == (hist # <<>> /\ hist[Len(hist)].op = "sign") => Obs(signer).verifies[hist[Len(hist)].key]
ClearedVerifiesNothing == (hist # <<>> /\ hist[Len(hist)].op = "clear") => \A k \in Keys : ~Obs(signer).verifies[k]
=============================================================================
