--------------------------- MODULE Gen_SignHistory ---------------------------
(* GEN: every operation history up to MaxLen, with the observation the      *)
(* specification expects after each step, for both kinds of start package.   *)
EXTENDS SignHistory, TLC, Json, IOUtils, SequencesExt
CONSTANT MaxLen
Hists == UNION { [1..n -> Ops] : n \in 1..MaxLen }
Case(s, h) == [start |-> s, ops |-> h, expect |-> Expect(s, h)]
Init == signer = "none" /\ hist = <<>>
Next == hist = <<>> /\ hist' = <<[op |-> "clear", key |-> "-"]>> /\ UNCHANGED signer
        /\ ndJsonSerialize(IOEnv.OUT, SetToSeq({Case(s, h) : s \in {"none", "foreign"}, h \in Hists}))
Spec == Init /\ [][Next]_shvars
=============================================================================
