---------------------------- MODULE Gen_Signature ----------------------------
(* GEN: every signature-header shape x verdict pattern x digest state, for   *)
(* the harness to hand-encode and run through verify_signature with a       *)
(* recording verifier.                                                       *)
EXTENDS Naturals, Sequences, TLC, Json, IOUtils, SequencesExt
OpenPgp == { "absent", "wrongtype" } \cup { "n" } \* placeholder
OpShapes == { [kind |-> "absent", ents |-> <<>>], [kind |-> "wrongtype", ents |-> <<>>] }
            \cup { [kind |-> "list", ents |-> e] : e \in {<<>>, <<"good">>, <<"bad">>, <<"good", "good">>,
                                                          <<"good", "bad">>, <<"bad", "good">>, <<"bad", "bad">>, <<"short">>} }
Legacy == {"absent", "bin", "wrongtype", "short"}
\* verdict patterns over up to 5 potential signatures (OPENPGP 1, OPENPGP 2, RSA, DSA, PGP)
Patterns == { <<"accept", "accept", "accept", "accept", "accept">>, <<"reject", "reject", "reject", "reject", "reject">>,
              <<"reject", "accept", "accept", "accept", "accept">>, <<"accept", "reject", "accept", "accept", "accept">>,
              <<"accept", "accept", "reject", "accept", "accept">>, <<"accept", "accept", "accept", "reject", "accept">>,
              <<"accept", "accept", "accept", "accept", "reject">> }
Cases == { [openpgp |-> o, rsa |-> r, dsa |-> d, pgp |-> p, verdicts |-> v, digest |-> g]
             : o \in OpShapes, r \in Legacy, d \in Legacy, p \in Legacy, v \in Patterns, g \in {"match", "mismatch", "absent"} }
Interesting(c) == c.verdicts[1] = "accept" \/ c.digest = "match"
Small(c) == ("short" \notin {c.rsa, c.dsa, c.pgp}) \/ (c.verdicts[1] = "accept" /\ c.verdicts[5] = "accept" /\ c.verdicts[3] = "accept" /\ c.digest = "match")
VARIABLE done
Init == done = FALSE
Next == ~done /\ done' = TRUE /\ ndJsonSerialize(IOEnv.OUT, SetToSeq({c \in Cases : Interesting(c) /\ Small(c)}))
Spec == Init /\ [][Next]_done
=============================================================================
