------------------------------- MODULE Digests -------------------------------
(***************************************************************************)
(* C03: digest verification as a decision over the abstract state of the   *)
(* four recorded digests.  Digests themselves are uninterpreted: the       *)
(* harness recomputes them with its own hashing over byte ranges it        *)
(* locates itself and reports, per digest, whether the recorded value      *)
(*   is absent / has a non-standard type / matches / differs.              *)
(*                                                                         *)
(*   d.md5, d.sha1, d.sha256  \in {"absent", "wrongtype", "match", "mismatch"}             *)
(*   d.payload                \in {"absent", "wrongtype", "match", "mismatch", "empty"}    *)
(*   d.algo                   \in {"absent", "wrongtype", "sha256", "other_known", "unknown"} *)
(* "Recorded" = present with its standard type; a payload digest is        *)
(* recorded only together with its algorithm tag (rpm's own rule).         *)
(***************************************************************************)
EXTENDS Naturals, Sequences

HdrStates == {"absent", "wrongtype", "match", "mismatch"}
PayStates == {"absent", "wrongtype", "match", "mismatch", "empty"}
AlgStates == {"absent", "wrongtype", "sha256", "other_known", "unknown"}
Rows == [md5 : HdrStates, sha1 : HdrStates, sha256 : HdrStates, payload : PayStates, algo : AlgStates]

PayloadRecorded(d) == d.payload \in {"match", "mismatch", "empty"} /\ d.algo \in {"sha256", "other_known", "unknown"}
AlgoBad(d) == PayloadRecorded(d) /\ d.algo \in {"other_known", "unknown"}
Wrong(d)   == \/ d.md5 = "mismatch" \/ d.sha1 = "mismatch" \/ d.sha256 = "mismatch"
              \/ (PayloadRecorded(d) /\ d.algo = "sha256" /\ d.payload = "mismatch")
Silent(d)  == PayloadRecorded(d) /\ d.algo = "sha256" /\ d.payload = "empty"   \* a zero-item array records nothing

Outcomes == {"ok", "DigestMismatchError", "othererr"}
Allowed(d) == IF AlgoBad(d) THEN {"DigestMismatchError", "othererr"}       \* an error, never success
              ELSE IF Wrong(d) THEN {"DigestMismatchError"}
              ELSE IF Silent(d) THEN Outcomes
              ELSE {"ok"}

---------------------------------------------------------------------------
(* The verifier as a step machine in the order an implementation may take: *)
(* header+payload MD5, header SHA-1, header SHA-256, payload digest.       *)
(* MC_Digests checks that it refines Allowed on the complete table.        *)
Steps == <<"md5", "sha1", "sha256", "payload", "done">>
StepMachine(d, pc) ==     \* result of running from step pc: an outcome
    LET RECURSIVE Run(_)
        Run(k) ==
          IF Steps[k] = "done" THEN "ok"
          ELSE IF Steps[k] = "payload" THEN
               IF ~PayloadRecorded(d) THEN Run(k + 1)
               ELSE IF d.algo # "sha256" THEN "othererr"
               ELSE IF d.payload = "empty" THEN "othererr"
               ELSE IF d.payload = "mismatch" THEN "DigestMismatchError" ELSE Run(k + 1)
          ELSE IF d[Steps[k]] = "mismatch" THEN "DigestMismatchError" ELSE Run(k + 1)
    IN Run(pc)
=============================================================================
