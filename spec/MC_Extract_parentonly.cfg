SPECIFICATION Spec
CONSTANTS
  Design = "parentonly"
  MaxEntries = 2
INVARIANTS ContainedInv VictimIntact
CHECK_DEADLOCK FALSE
