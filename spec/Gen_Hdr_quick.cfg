SPECIFICATION Spec
CONSTANT Thorough = FALSE
INVARIANT Count
CHECK_DEADLOCK FALSE
