------------------------------ MODULE MC_IoSink ------------------------------
(* Two writer designs against every sink behaviour (bounded number of       *)
(* responses).  "write_all": each segment is offered until fully accepted,  *)
(* Interrupted retried, Zero / Fail returned as errors.  "single": one      *)
(* write() call per segment, count ignored - the defect C14 names.          *)
(* "okinterrupt": like write_all, but Interrupted ends the loop with Ok.     *)
(* MC_IoSink_write_all.cfg must pass; MC_IoSink_single.cfg and               *)
(* MC_IoSink_okinterrupt.cfg must FAIL (the check runs all three: the        *)
(* specification distinguishes the designs).                                 *)
EXTENDS IoSink, TLC
CONSTANTS Segs, Design, MaxResp
VARIABLES seg, off, nresp
SegsDef == <<2, 3, 1>>
vars == <<iovars, seg, off, nresp>>
RECURSIVE Sum(_, _)
Sum(s, n) == IF n = 0 THEN 0 ELSE s[n] + Sum(s, n - 1)
Canon(sg, o) == Sum(Segs, sg - 1) + o          \* canonical position of the writer's cursor
Init == IoInit /\ L = 6 /\ seg = 1 /\ off = 0 /\ nresp = 0
Done == seg > Len(Segs)
WOffer == /\ ~Done /\ offered = 0 /\ result = "running"
          /\ Offer(Segs[seg] - off, Canon(seg, off) = pos)
          /\ UNCHANGED <<seg, off, nresp>>
Advance(k) == IF Design \in {"write_all", "okinterrupt"}
              THEN IF off + k = Segs[seg] THEN seg' = seg + 1 /\ off' = 0 ELSE seg' = seg /\ off' = off + k
              ELSE seg' = seg + 1 /\ off' = 0                      \* single write: move on regardless of k
SAccept == /\ nresp < MaxResp /\ \E k \in 1..offered : Accept(k) /\ Advance(k) /\ nresp' = nresp + 1
\* "okinterrupt": the writer leaves its loop when the sink reports Interrupted and goes on to return success
SInterrupted == /\ nresp < MaxResp /\ Interrupted /\ nresp' = nresp + 1
                /\ IF Design = "okinterrupt" THEN seg' = Len(Segs) + 1 /\ off' = 0 ELSE UNCHANGED <<seg, off>>
SFail == /\ nresp < MaxResp /\ (Fail \/ Zero) /\ nresp' = nresp + 1 /\ UNCHANGED <<seg, off>>
WReturn == \/ (Done /\ ReturnOk /\ UNCHANGED <<seg, off, nresp>>)
           \/ (sinkFailed /\ ReturnErr /\ UNCHANGED <<seg, off, nresp>>)
Next == WOffer \/ SAccept \/ SInterrupted \/ SFail \/ WReturn
Spec == Init /\ [][Next]_vars
\* a writer whose sink failed must not go on offering (it returns the error)
=============================================================================
