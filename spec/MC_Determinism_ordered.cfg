SPECIFICATION Spec
CONSTANTS
  Owners = {1, 2, 3}
  Design = "ordered"
PROPERTY DetAction
CHECK_DEADLOCK FALSE
