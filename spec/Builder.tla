------------------------------- MODULE Builder -------------------------------
(***************************************************************************)
(* C06 / C11: the builder as a function from an abstract configuration to  *)
(* what must be read back after Build ; Write ; Parse ; Get*.              *)
(* A configuration holds, per field, either a supplied value ([some |-> v])*)
(* or [none |-> TRUE]; strings are byte sequences, numbers digit vectors.  *)
(* Only supplied values are constrained; defaults the caller did not ask   *)
(* for are not (the property is about what was *given* to the builder).    *)
(***************************************************************************)
EXTENDS Naturals, Sequences, FiniteSets, SequencesExt

IsSome(x) == "some" \in DOMAIN x

\* byte-wise lexicographic order on byte sequences (the order of the archive / header file list)
RECURSIVE LexLess(_, _)
LexLess(a, b) == IF b = <<>> THEN FALSE
                 ELSE IF a = <<>> THEN TRUE
                 ELSE IF a[1] < b[1] THEN TRUE
                 ELSE IF a[1] > b[1] THEN FALSE
                 ELSE LexLess(Tail(a), Tail(b))

\* the installed path of a destination: "./x" and "/x" both name /x, and so do spellings with a repeated slash, a "."
\* component or a trailing slash ("/etc//x", "/etc/./x", "/etc/x/", "/etc/x/.")
RECURSIVE SplitSlash(_, _, _)
SplitSlash(s, i, cur) == IF i > Len(s) THEN <<cur>>
                         ELSE IF s[i] = 47 THEN <<cur>> \o SplitSlash(s, i + 1, <<>>)
                         ELSE SplitSlash(s, i + 1, Append(cur, s[i]))
RECURSIVE JoinSlash(_)
JoinSlash(cs) == IF cs = <<>> THEN <<>> ELSE <<47>> \o cs[1] \o JoinSlash(Tail(cs))
NormalPath(dest) ==
    LET d == IF dest # <<>> /\ dest[1] = 46 /\ (Len(dest) = 1 \/ dest[2] = 47) THEN Tail(dest) ELSE dest
        cs == SelectSeq(SplitSlash(d, 1, <<>>), LAMBDA c : c # <<>> /\ c # <<46>>)
    IN IF cs = <<>> THEN <<47>> ELSE JoinSlash(cs)
\* files are listed in the order of their archive names "." ++ path
FileList(files) == SortSeq(files, LAMBDA f, g : LexLess(NormalPath(f.dest), NormalPath(g.dest)))

FlagBit(f) == CASE f = "config" -> {1} [] f = "doc" -> {2} [] f = "config_noreplace" -> {1, 16}
                [] f = "ghost" -> {64} [] f = "license" -> {128} [] f = "readme" -> {256} [] OTHER -> {}
RECURSIVE SumOfSet(_)
SumOfSet(S) == IF S = {} THEN 0 ELSE LET x == CHOOSE y \in S : TRUE IN x + SumOfSet(S \ {x})
FlagWord(fs) == SumOfSet(UNION {FlagBit(fs[i]) : i \in 1..Len(fs)})

\* digit-vector minimum (equal lengths)
RECURSIVE DLeq(_, _)
DLeq(a, b) == a = <<>> \/ a[1] < b[1] \/ (a[1] = b[1] /\ DLeq(Tail(a), Tail(b)))
DMin(a, b) == IF DLeq(a, b) THEN a ELSE b

\* an explicit mode, else the source file's own type and permission bits (all twelve of them)
ExpectedMode(f) == IF IsSome(f.mode) THEN f.mode.some ELSE f.src_mode
ExpectedMtime(f, cfg) == IF IsSome(cfg.source_date) THEN DMin(f.mtime, cfg.source_date.some) ELSE f.mtime

\* does the read-back file entry e match the configured file f ?
FileMatches(f, e, cfg) ==
    /\ e.path = NormalPath(f.dest)
    /\ e.mode = ExpectedMode(f)
    /\ e.user = (IF IsSome(f.user) THEN f.user.some ELSE <<114, 111, 111, 116>>)
    /\ e.group = (IF IsSome(f.group) THEN f.group.some ELSE <<114, 111, 111, 116>>)
    /\ e.flags = <<0, FlagWord(f.flags)>>
    /\ (IsSome(f.caps) => e.caps = [some |-> f.caps.some])
    /\ (IsSome(f.link) => e.linkto = f.link.some)
    /\ e.size = f.len
    /\ e.digest = [some |-> f.sha256]
    /\ e.mtime = ExpectedMtime(f, cfg)

\* s is an order-preserving subsequence of t
RECURSIVE SubSeqOf(_, _)
SubSeqOf(s, t) == IF s = <<>> THEN TRUE
                  ELSE IF t = <<>> THEN FALSE
                  ELSE IF s[1] = t[1] THEN SubSeqOf(Tail(s), Tail(t)) ELSE SubSeqOf(s, Tail(t))

\* the dependency constructors: how the name is decorated and which rpm sense bits are set
\* (LESS 2, GREATER 4, EQUAL 8, SCRIPT_PRE 2^9, SCRIPT_POST 2^10, SCRIPT_PREUN 2^11, SCRIPT_POSTUN 2^12,
\*  RPMLIB 2^24, CONFIG 2^28); flags as <<high 16 bits, low 16 bits>>
DepSense == [ any |-> <<0, 0>>, eq |-> <<0, 8>>, less |-> <<0, 2>>, less_eq |-> <<0, 10>>, greater |-> <<0, 4>>,
              greater_eq |-> <<0, 12>>, rpmlib |-> <<256, 8>>, config |-> <<4096, 8>>, user |-> <<0, 4608>>,
              group |-> <<0, 4608>>, script_pre |-> <<0, 512>>, script_post |-> <<0, 1024>>,
              script_preun |-> <<0, 2048>>, script_postun |-> <<0, 4096>> ]
DepWrap == [ rpmlib |-> <<114, 112, 109, 108, 105, 98>>, config |-> <<99, 111, 110, 102, 105, 103>>,
             user |-> <<117, 115, 101, 114>>, group |-> <<103, 114, 111, 117, 112>> ]
DepName(ctor, n) == IF ctor \in DOMAIN DepWrap THEN DepWrap[ctor] \o <<40>> \o n \o <<41>> ELSE n
Versioned == {"eq", "less", "less_eq", "greater", "greater_eq", "rpmlib", "config"}

DepsOfKind(cfg, k) == SelectSeq(cfg.deps, LAMBDA d : d.kind = k)
StripKind(ds) == [i \in 1..Len(ds) |-> [a |-> ds[i].a, b |-> ds[i].b, c |-> ds[i].c]]
=============================================================================
