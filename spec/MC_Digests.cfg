SPECIFICATION Spec
INVARIANTS Refines BigStep Iff NeverOkUnsupported AllowedNonEmpty
CHECK_DEADLOCK FALSE
