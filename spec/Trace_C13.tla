------------------------------ MODULE Trace_C13 ------------------------------
(* Trace validation for C13: every comparison the implementation reported   *)
(* must equal rpm's algorithm (RpmVerCmp) and the token-key order (KeyCmp). *)
EXTENDS RpmVerCmp, TraceBase

VARIABLES l, rej, nrej
vars == <<l, rej, nrej>>

Alpha(r) == r.alpha          \* alphabet of the exhaustive domain (sequence of code points)

RowOk(r) ==     \* one left operand against the whole canonical domain
    LET a == NthStr(r.alpha, r.i) IN
    /\ r.a = a
    /\ Len(r.res) = DomSize(Len(r.alpha), r.maxlen)
    /\ \A j \in 1..Len(r.res) :
          LET b == NthStr(r.alpha, j - 1) IN
          /\ r.res[j] = RpmVerCmp(a, b)
          /\ r.res[j] = KeyCmp(a, b)

PairOk(r) ==
    /\ r.res = RpmVerCmp(r.a, r.b)
    /\ r.res = KeyCmp(r.a, r.b)
    /\ r.rev = -r.res                      \* antisymmetry under swapping
    /\ r.refl_a = 0 /\ r.refl_b = 0        \* reflexivity

TripleOk(r) ==
    /\ r.ab = RpmVerCmp(r.a, r.b) /\ r.bc = RpmVerCmp(r.b, r.c) /\ r.ac = RpmVerCmp(r.a, r.c)
    /\ (r.ab <= 0 /\ r.bc <= 0 => r.ac <= 0)
    /\ (r.ab >= 0 /\ r.bc >= 0 => r.ac >= 0)

\* PartialOrd and the comparison operators give the same order (it is total: never incomparable)
ViaOperators(r, c) == r.pord = c /\ r.le = (c <= 0) /\ r.ge = (c >= 0)

EvrOk(r) ==     \* r.x, r.y : [e, v, r] ; reported: ord, eq, via_str (rpm_evr_compare on the texts)
    LET c == EvrCmp(r.x, r.y) IN
    /\ r.ord = c
    /\ (r.eq = TRUE => r.ord = 0)                   \* equal values compare as equal
    /\ (EvrEq(r.x, r.y) => r.eq = TRUE)
    /\ (Has(r, "via_str") => r.via_str = c)
    /\ ViaOperators(r, c)

NevraOk(r) ==
    LET c == NevraCmp(r.x, r.y) IN
    /\ r.ord = c
    /\ (r.eq = TRUE => r.ord = 0)
    /\ ViaOperators(r, c)

EventOk(r) ==
    CASE r.event = "CmpRow"  -> RowOk(r)
      [] r.event = "CmpPair" -> PairOk(r)
      [] r.event = "Triple"  -> TripleOk(r)
      [] r.event = "EvrRow"  -> EvrOk(r)
      [] r.event = "NevraRow" -> NevraOk(r)
      [] OTHER -> FALSE                              \* panics, unknown events: not a behaviour

Init == l = 1 /\ rej = <<>> /\ nrej = 0
Next ==
    /\ l <= N
    /\ l' = l + 1
    /\ IF EventOk(Rec[l]) THEN UNCHANGED <<rej, nrej>>
       ELSE LET x == NoteReject(rej, nrej, l, Rec[l].event) IN rej' = x.rej /\ nrej' = x.nrej
Spec == Init /\ [][Next]_vars
Finished == (l = N + 1) => WriteVerdict(rej, nrej)
=============================================================================
