------------------------------ MODULE Trace_Pkg ------------------------------
(***************************************************************************)
(* ObservePackage: the trace specification every package observation goes  *)
(* through, whatever check produced it (C01 round trip / fixpoint, C16     *)
(* offsets, C09 structure of emitted packages, C05 accessors, C08 recorded *)
(* digests).  One event = one byte string handed to the parser, with what  *)
(* the library did with it.  All layout facts are recomputed here from the *)
(* raw bytes; the harness only reports what it observed.                   *)
(***************************************************************************)
EXTENDS PackageFile, TraceBase, FiniteSets, SequencesExt

VARIABLES l, rej, nrej
vars == <<l, rej, nrej>>

In(r) == r.input

\* ---- C01
DiffOk(r) ==
    /\ \A k \in 1..Len(r.diff) : r.diff[k][1] \in Zeroable(In(r)) /\ r.diff[k][2] = 0
    /\ \A p \in Zeroable(In(r)) : B(In(r), p) = 0 \/ \E k \in 1..Len(r.diff) : r.diff[k][1] = p
RoundTrip(r) ==
    r.accepted =>
      /\ HdrFits(In(r))
      /\ (IF r.cut THEN PayloadAt(In(r)) = Len(In(r)) ELSE PayloadAt(In(r)) <= Len(In(r)))
      /\ r.written_len = r.input_len
      /\ r.tail_equal = TRUE
      /\ DiffOk(r)
      /\ r.reparsed_equal = TRUE /\ r.rewritten_equal = TRUE
      \* a sink that takes only a few bytes of each request receives the same bytes
      /\ (Has(r, "short_equal") => r.short_equal = TRUE)

\* ---- C16
\* `o` are the offsets reported by the object that wrote the bytes In(r)
\* `cl` is the length of the payload the writing object holds
OffBasic(r, o, cl) ==
    /\ o.lead = 0 /\ o.sig = SigAt
    /\ Magic(In(r), o.sig) /\ Magic(In(r), o.hdr)              \* a header intro begins at each header offset
    /\ r.input_len - o.payload = cl                              \* payload offset .. end = payload
    /\ o.lead < o.sig /\ o.sig < o.hdr /\ o.hdr < o.payload
OffExact(r, o) == HdrFits(In(r)) => (o.hdr = HdrAt(In(r)) /\ o.payload = PayloadAt(In(r)))
Offsets(r) ==
    \* a parsed package wrote In(r) back (that is C01); its offsets describe those bytes
    /\ (r.accepted /\ RoundTrip(r) => OffBasic(r, r.off, r.content_len) /\ OffExact(r, r.off))
    \* ... also when the input is not what this specification takes for a package (a file that ends inside its main
    \* header, say): if it was accepted and written back byte for byte, these are the bytes the offsets are about
    /\ (r.accepted /\ r.written_len = r.input_len /\ r.tail_equal = TRUE /\ r.diff = <<>> => OffBasic(r, r.off, r.content_len))
    \* bytes written by an in-memory package (built / signed / cleared / re-written)
    /\ (Has(r, "off_mem") => /\ OffBasic(r, r.off_mem, IF Has(r, "content_len_mem") THEN r.content_len_mem ELSE r.content_len)
                              /\ OffExact(r, r.off_mem))

\* ---- C09 (header part): packages emitted by the builder / signer are valid by rpm's rules
Structure(r) ==
    r.emitted =>
      /\ r.accepted
      /\ LeadOk(In(r))
      /\ HdrChk(In(r), SigAt, 62) /\ ReservedZero(In(r), SigAt)
      /\ SigPadZero(In(r))
      /\ HdrChk(In(r), HdrAt(In(r)), 63) /\ ReservedZero(In(r), HdrAt(In(r)))
      /\ RpmlibOk(In(r), HdrAt(In(r)))

\* ---- C05
RECURSIVE Utf8Valid(_, _)
Utf8Valid(s, i) ==
    IF i > Len(s) THEN TRUE
    ELSE LET c == s[i]
             Cont(j) == j <= Len(s) /\ s[j] >= 128 /\ s[j] <= 191
             Rng(j, lo, hi) == j <= Len(s) /\ s[j] >= lo /\ s[j] <= hi
         IN IF c < 128 THEN Utf8Valid(s, i + 1)
            ELSE IF c >= 194 /\ c <= 223 THEN Cont(i + 1) /\ Utf8Valid(s, i + 2)
            ELSE IF c = 224 THEN Rng(i + 1, 160, 191) /\ Cont(i + 2) /\ Utf8Valid(s, i + 3)
            ELSE IF (c >= 225 /\ c <= 236) \/ c = 238 \/ c = 239 THEN Cont(i + 1) /\ Cont(i + 2) /\ Utf8Valid(s, i + 3)
            ELSE IF c = 237 THEN Rng(i + 1, 128, 159) /\ Cont(i + 2) /\ Utf8Valid(s, i + 3)
            ELSE IF c = 240 THEN Rng(i + 1, 144, 191) /\ Cont(i + 2) /\ Cont(i + 3) /\ Utf8Valid(s, i + 4)
            ELSE IF c >= 241 /\ c <= 243 THEN Cont(i + 1) /\ Cont(i + 2) /\ Cont(i + 3) /\ Utf8Valid(s, i + 4)
            ELSE IF c = 244 THEN Rng(i + 1, 128, 143) /\ Cont(i + 2) /\ Cont(i + 3) /\ Utf8Valid(s, i + 4)
            ELSE FALSE
AsciiPart(s) == SelectSeq(s, LAMBDA c : c < 128)
\* a string result matches the stored bytes: exactly when they are valid UTF-8, else up to the
\* replacement of the invalid sequences (the accessor returns text)
SM(e, g) == IF Utf8Valid(e, 1) THEN g = e ELSE AsciiPart(g) = AsciiPart(e)
SLM(e, g) == Len(e) = Len(g) /\ \A i \in 1..Len(e) : SM(e[i], g[i])
OptSLM(e, g) == IF "none" \in DOMAIN e THEN "none" \in DOMAIN g
                ELSE "some" \in DOMAIN g /\ SLM(e.some, g.some)

\* the property asks for "an error", not for a particular one: the kind the library reports is recorded but not compared
ErrMatch(e, g) == IsErr(g)
ResMatch(kind, e, g) ==
    IF IsErr(e) THEN ErrMatch(e, g)
    ELSE /\ ~IsErr(g)
         /\ CASE kind = "str"   -> SM(e.ok, g.ok)
              [] kind = "strs"  -> SLM(e.ok, g.ok)
              [] kind = "val"   -> g.ok = e.ok
              [] kind = "zip"   -> /\ Len(e.ok) = Len(g.ok)
                                   /\ \A i \in 1..Len(e.ok) :
                                        SM(e.ok[i].a, g.ok[i].a) /\ e.ok[i].b = g.ok[i].b /\ SM(e.ok[i].c, g.ok[i].c)
              [] kind = "files"  -> /\ Len(e.ok) = Len(g.ok)
                                    /\ \A i \in 1..Len(e.ok) :
                                         /\ SM(e.ok[i].path, g.ok[i].path) /\ SM(e.ok[i].user, g.ok[i].user)
                                         /\ SM(e.ok[i].group, g.ok[i].group) /\ SM(e.ok[i].linkto, g.ok[i].linkto)
                                         /\ e.ok[i].mode = g.ok[i].mode /\ e.ok[i].mtime = g.ok[i].mtime
                                         /\ e.ok[i].size = g.ok[i].size /\ e.ok[i].flags = g.ok[i].flags
                                         /\ e.ok[i].digest = g.ok[i].digest
                                         /\ (IF "none" \in DOMAIN e.ok[i].caps THEN "none" \in DOMAIN g.ok[i].caps
                                             ELSE "some" \in DOMAIN g.ok[i].caps /\ SM(e.ok[i].caps.some, g.ok[i].caps.some))
                                         /\ (IF "none" \in DOMAIN e.ok[i].ima THEN "none" \in DOMAIN g.ok[i].ima
                                             ELSE "some" \in DOMAIN g.ok[i].ima /\ SM(e.ok[i].ima.some, g.ok[i].ima.some))
              [] kind = "script" -> /\ SM(e.ok.script, g.ok.script) /\ g.ok.flags = e.ok.flags
                                    /\ OptSLM(e.ok.prog, g.ok.prog)

GetOk(b, h, g) ==
    LET a == g.acc IN
    IF a \in DOMAIN Simple THEN
        ResMatch(IF Simple[a][1] = "u32" THEN "val" ELSE "str", SimpleExpected(b, h, Simple[a]), g.res)
    ELSE IF a \in DOMAIN DepTags THEN ResMatch("zip", DepsExpected(b, h, DepTags[a]), g.res)
    ELSE IF a \in DOMAIN ScriptTags THEN ResMatch("script", ScriptExpected(b, h, ScriptTags[a]), g.res)
    ELSE IF a = "get_changelog_entries" THEN ResMatch("zip", ChangelogExpected(b, h), g.res)
    ELSE IF a = "get_file_paths" THEN ResMatch("strs", FilePathsExpected(b, h), g.res)
    ELSE IF a = "get_file_entries" THEN ResMatch("files", FileEntriesExpected(b, h), g.res)
    ELSE IF a = "get_installed_size" THEN ResMatch("val", InstalledSizeExpected(b, h), g.res)
    ELSE IF a = "is_source_package" THEN g.res = Ok(Find(b, h, 1106) # 0)
    ELSE IF a = "get_payload_compressor" THEN
        LET s == GetStr(b, h, 1125) IN
        IF IsErr(s) THEN (IF s.err = "TagNotFound" THEN g.res = Ok("none") ELSE ErrMatch(s, g.res))
        ELSE TRUE      \* the name -> enum mapping is C15's concern
    ELSE IF Has(g, "raw") THEN       \* Header::get_entry_data_as_* on an arbitrary tag
        CASE g.raw = "string"   -> ResMatch("str", GetStr(b, h, g.tag), g.res)
          [] g.raw = "i18n"     -> ResMatch("str", GetI18n(b, h, g.tag), g.res)
          [] g.raw = "strings"  -> ResMatch("strs", GetStrArr(b, h, g.tag), g.res)
          [] g.raw = "u32"      -> ResMatch("val", GetU32(b, h, g.tag), g.res)
          [] g.raw = "u64"      -> ResMatch("val", GetU64(b, h, g.tag), g.res)
          [] g.raw = "u16s"     -> ResMatch("val", GetU16Arr(b, h, g.tag), g.res)
          [] g.raw = "u32s"     -> ResMatch("val", GetU32Arr(b, h, g.tag), g.res)
          [] g.raw = "u64s"     -> ResMatch("val", GetU64Arr(b, h, g.tag), g.res)
          [] g.raw = "binary"   -> ResMatch("val", GetBin(b, h, g.tag), g.res)
    ELSE FALSE

Accessors(r) ==
    (Has(r, "gets") /\ r.accepted /\ HdrFits(In(r)) /\ HdrChkLoose(In(r), HdrAt(In(r)), 63)) =>
        \A k \in 1..Len(r.gets) : GetOk(In(r), HdrAt(In(r)), r.gets[k])

\* which accessor of this event disagrees (for the reject reason)
BadGets(r) == IF Has(r, "gets") /\ r.accepted /\ HdrFits(In(r)) /\ HdrChkLoose(In(r), HdrAt(In(r)), 63)
              THEN {r.gets[k].acc : k \in {j \in 1..Len(r.gets) : ~GetOk(In(r), HdrAt(In(r)), r.gets[j])}}
              ELSE {}

\* ---- C08: digests recorded by the builder / signer equal the harness's independent recomputation,
\* taken over exactly the byte ranges this specification derives
Digests(r) ==
    (Has(r, "dig") /\ r.emitted) =>
      /\ r.dig.hdr_range = <<HdrAt(In(r)), PayloadAt(In(r))>>
      /\ r.dig.sha256_header.rec = r.dig.sha256_header.calc
      /\ r.dig.payload.rec = r.dig.payload.calc
      /\ r.dig.payload_algo = 8
      /\ r.dig.payload_alt.rec = r.dig.payload_alt.calc
      /\ \A k \in 1..Len(r.dig.files) : r.dig.files[k].rec = r.dig.files[k].calc

\* a package that is well formed by rpm's rules throughout (lead, signature header, main header - dribble entries
\* allowed) can be read at all: refusing it denies every accessor its value.  (Judged on the metadata alone; the
\* payload plays no part in parsing.)
WellFormedPkg(r) ==
    /\ LeadOk(In(r)) /\ HdrChkLoose(In(r), SigAt, 62)
    /\ HdrFits(In(r)) /\ HdrChkLoose(In(r), HdrAt(In(r)), 63)
\* ... and so can it when a buffered source hands the same bytes over in two pieces
Readable(r) == WellFormedPkg(r) => r.accepted /\ (Has(r, "accepted_split") => r.accepted_split = TRUE)

\* every clause the event violates, as labels "<property>:<detail>" (the driver attributes them)
Whys(r) ==
    IF r.event # "Pkg" THEN {r.event}
    ELSE (IF RoundTrip(r) THEN {} ELSE {"C01:RoundTrip"})
         \cup (IF Offsets(r) THEN {} ELSE {"C16:Offsets"})
         \cup (IF Structure(r) THEN {} ELSE {"C09:Structure"})
         \cup {"C05:" \o a : a \in BadGets(r)}
         \cup (IF Readable(r) THEN {} ELSE {"C05:refused"})
         \cup (IF Digests(r) THEN {} ELSE {"C08:Digests"})

Init == l = 1 /\ rej = <<>> /\ nrej = 0
Next == /\ l <= N /\ l' = l + 1
        /\ LET w == Whys(Rec[l]) IN
           IF w = {} THEN UNCHANGED <<rej, nrej>>
           ELSE LET y == NoteReject(rej, nrej, l, SetToSeq(w)) IN rej' = y.rej /\ nrej' = y.nrej
Spec == Init /\ [][Next]_vars
Finished == (l = N + 1) => WriteVerdict(rej, nrej)
=============================================================================
