SPECIFICATION Spec
INVARIANTS Algebra ClassExact CtorMasks I32
CHECK_DEADLOCK FALSE
