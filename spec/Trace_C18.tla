------------------------------ MODULE Trace_C18 ------------------------------
EXTENDS FileMode, TraceBase
VARIABLES l, rej, nrej
vars == <<l, rej, nrej>>

ClassCode(c) == IF c = "dir" THEN 1 ELSE IF c = "regular" THEN 2 ELSE IF c = "symlink" THEN 3 ELSE 0

\* block of 256 consecutive words base .. base+255 observed through From<u16> and From<i32>
BlockOk(r) ==
    /\ Len(r.raw) = 256
    /\ \A k \in 1..256 :
         LET w == r.base + k - 1  o == Obs(w) IN
         /\ w \in Word
         /\ r.raw[k] = o.raw /\ r.type[k] = o.type /\ r.perms[k] = o.perms
         /\ r.class[k] = ClassCode(o.class) /\ r.valid[k] = o.valid
         /\ r.as_u32[k] = w /\ r.as_u16[k] = w
         /\ r.i32_same[k] = TRUE            \* From<i32>(w) observed identically to From<u16>(w)

\* negative 32-bit integers -32768 .. -1 (block of 256 starting at base)
NegBlockOk(r) ==
    /\ Len(r.raw) = 256
    /\ \A k \in 1..256 :
         LET x == r.base + k - 1  o == Obs(WordOf(x)) IN
         /\ InRange(x) /\ x < 0
         /\ r.raw[k] = o.raw /\ r.type[k] = o.type /\ r.perms[k] = o.perms
         /\ r.class[k] = ClassCode(o.class) /\ r.valid[k] = o.valid

\* named constructors: block of 256 permission arguments for one kind
CtorBlockOk(r) ==
    /\ Len(r.raw) = 256
    /\ \A k \in 1..256 :
         LET p == r.base + k - 1  o == CtorObs(r.kind, p) IN
         /\ r.raw[k] = o.raw /\ r.type[k] = o.type /\ r.perms[k] = o.perms
         /\ r.class[k] = ClassCode(o.class)

\* the whole 32-bit range, run-length encoded into maximal intervals of equal verdict:
\* "inv" = reported invalid, "ok" = converted to a directory / regular / symlink mode.
\* Only integers whose low 16 bits (for in-range values) carry a valid type may be "ok".
ValidRanges == { <<16384, 20479>>, <<32768, 36863>>, <<40960, 45055>>,
                 <<-32768, -28673>>, <<-24576, -20481>> }
RunsOk(r) ==
    /\ Len(r.runs) >= 1
    /\ r.runs[1].lo = -2147483647 - 1
    /\ r.runs[Len(r.runs)].hi = 2147483647
    /\ \A k \in 1..Len(r.runs) :
         LET u == r.runs[k] IN
         /\ u.lo <= u.hi
         /\ (k > 1 => u.lo - 1 = r.runs[k-1].hi)
         /\ u.verdict \in {"inv", "ok"}
         /\ (u.verdict = "ok"  => \E g \in ValidRanges : u.lo >= g[1] /\ u.hi <= g[2])
         /\ (u.verdict = "inv" => \A g \in ValidRanges : u.hi < g[1] \/ u.lo > g[2])

EventOk(r) ==
    CASE r.event = "ModeBlock" -> BlockOk(r)
      [] r.event = "NegBlock"  -> NegBlockOk(r)
      [] r.event = "CtorBlock" -> CtorBlockOk(r)
      [] r.event = "I32Runs"   -> RunsOk(r)
      [] OTHER -> FALSE

Init == l = 1 /\ rej = <<>> /\ nrej = 0
Next == /\ l <= N /\ l' = l + 1
        /\ IF EventOk(Rec[l]) THEN UNCHANGED <<rej, nrej>>
           ELSE LET x == NoteReject(rej, nrej, l, Rec[l].event) IN rej' = x.rej /\ nrej' = x.nrej
Spec == Init /\ [][Next]_vars
Finished == (l = N + 1) => WriteVerdict(rej, nrej)
=============================================================================
