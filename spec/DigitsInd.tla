------------------------------ MODULE DigitsInd ------------------------------
(* TLC's integers are 32-bit, so 32-bit unsigned values travel through the    *)
(* trace specifications as base-2^16 digit vectors <<high, low>>.  This lemma *)
(* (for Apalache, over true integers) is what makes that encoding sound at    *)
(* full scale: for ALL a, b in 0 .. 2^32 - 1 the digits recombine to the      *)
(* value, lie in 0 .. 65535, and their lexicographic order is the numeric     *)
(* order (Timestamp!ILeq / Builder!DLeq on two digits) - so "not later than   *)
(* the source date", "order preserved" and equality of sizes mean what they   *)
(* say.  The conversion statement of C20 itself (Underflow below 0, Overflow  *)
(* from 2^32, identity between) is order preserving on all integers.          *)
EXTENDS Integers

VARIABLES
    \* @type: Int;
    a,
    \* @type: Int;
    b,
    \* @type: Int;
    s,
    \* @type: Int;
    t

Two32 == 4294967296
Hi(x) == x \div 65536
Lo(x) == x % 65536
DLeq2(xh, xl, yh, yl) == xh < yh \/ (xh = yh /\ xl <= yl)

Init == a \in 0..(Two32 - 1) /\ b \in 0..(Two32 - 1) /\ s \in Int /\ t \in Int
Next == UNCHANGED <<a, b, s, t>>

Recombine == Hi(a) * 65536 + Lo(a) = a /\ Hi(a) >= 0 /\ Hi(a) <= 65535 /\ Lo(a) >= 0 /\ Lo(a) <= 65535
OrderIso  == (a <= b) <=> DLeq2(Hi(a), Lo(a), Hi(b), Lo(b))
EqIso     == (a = b) <=> (Hi(a) = Hi(b) /\ Lo(a) = Lo(b))

\* C20's statement on whole seconds s, t (any integers): rank -1 = Underflow, 2^32 = Overflow
Rank(x) == IF x < 0 THEN 0 - 1 ELSE IF x >= Two32 THEN Two32 ELSE x
Monotone == s <= t => Rank(s) <= Rank(t)
Exact    == (s >= 0 /\ s < Two32) => Rank(s) = s
Inv == Recombine /\ OrderIso /\ EqIso /\ Monotone /\ Exact
\* (deliberately wrong, must be refuted: low digits alone do not order values)
Wrong == (a <= b) <=> (Lo(a) <= Lo(b))
=============================================================================
