SPECIFICATION Spec
INVARIANTS Sorted StylesAgree FlagsCommute NoreplaceImpliesConfig Clamp Sub
CHECK_DEADLOCK FALSE
