------------------------------- MODULE IoSink -------------------------------
(***************************************************************************)
(* C14 / C08: a serialiser writing a fixed canonical byte string of length *)
(* L into a sink that obeys the std::io::Write contract.                   *)
(*   Offer(len, atPos)  the writer calls write(buf): |buf| = len and buf   *)
(*                      is (atPos = TRUE) or is not the canonical bytes    *)
(*                      starting at the number of bytes accepted so far    *)
(*   the sink responds  Accept(k) 1 <= k <= len | Zero | Interrupted | Fail*)
(*   Return(ok | err)                                                      *)
(* Safety: every offer continues exactly where the sink stands (so the     *)
(* emitted bytes are always a prefix of the canonical bytes); success is   *)
(* returned only when everything was accepted.  An error return is always  *)
(* permitted by the statement.                                             *)
(***************************************************************************)
EXTENDS Naturals, Sequences

VARIABLES L,         \* length of the canonical byte string (fixed during a call)
          pos,        \* bytes accepted by the sink so far
          offered,    \* length of the buffer currently offered, 0 if none
          prefixOk,   \* every byte emitted so far was the canonical byte at its position
          sinkFailed, \* the sink reported Fail / Zero at least once
          result      \* "running" | "ok" | "err"
iovars == <<L, pos, offered, prefixOk, sinkFailed, result>>

IoInit == pos = 0 /\ offered = 0 /\ prefixOk = TRUE /\ sinkFailed = FALSE /\ result = "running"

Offer(len, atPos) ==
    /\ result = "running" /\ offered = 0
    /\ offered' = len
    /\ prefixOk' = (prefixOk /\ atPos /\ pos + len <= L)
    /\ UNCHANGED <<L, pos, sinkFailed, result>>

Accept(k) == /\ offered > 0 /\ k >= 1 /\ k <= offered
             /\ pos' = pos + k /\ offered' = 0 /\ UNCHANGED <<L, prefixOk, sinkFailed, result>>
Interrupted == /\ offered > 0 /\ offered' = 0 /\ UNCHANGED <<L, pos, prefixOk, sinkFailed, result>>
Zero == /\ offered > 0 /\ offered' = 0 /\ sinkFailed' = TRUE /\ UNCHANGED <<L, pos, prefixOk, result>>
Fail == /\ offered > 0 /\ offered' = 0 /\ sinkFailed' = TRUE /\ UNCHANGED <<L, pos, prefixOk, result>>
\* Offer followed by the sink's response, as one step (TLC 1.8 does not evaluate `Offer \cdot Accept`):
\* the grain at which a scripted sink observes the writer - one event per write() call.
Call(len, atPos, resp, k) ==
    /\ result = "running" /\ offered = 0
    /\ (resp = "accept" => k >= 1 /\ k <= len)
    /\ prefixOk' = (prefixOk /\ atPos /\ pos + len <= L)
    /\ pos' = IF resp = "accept" THEN pos + k ELSE pos
    /\ sinkFailed' = (sinkFailed \/ resp \in {"zero", "fail"})
    /\ UNCHANGED <<L, offered, result>>
EmptyOffer == /\ offered = 0 /\ UNCHANGED iovars     \* write(&[]) : nothing happens

ReturnOk  == result = "running" /\ offered = 0 /\ result' = "ok"  /\ UNCHANGED <<L, pos, offered, prefixOk, sinkFailed>>
ReturnErr == result = "running" /\ offered = 0 /\ result' = "err" /\ UNCHANGED <<L, pos, offered, prefixOk, sinkFailed>>

\* the property
PrefixAlways == prefixOk /\ pos <= L
OkMeansAll   == result = "ok" => (pos = L /\ prefixOk)
Safe == PrefixAlways /\ OkMeansAll
=============================================================================
