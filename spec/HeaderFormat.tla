---------------------------- MODULE HeaderFormat ----------------------------
(***************************************************************************)
(* The rpm header structure (intro / index / store) over raw bytes, from   *)
(* the format definition and rpm's own header-loading rules -- not from    *)
(* the library under test.                                                 *)
(*                                                                         *)
(*   b        a sequence of bytes (1-based); all offsets below are 0-based *)
(*   h        offset of a header intro inside b                            *)
(*   intro    8e ad e8 01 | 4 reserved | nindex (u32) | dsize (u32)         *)
(*   entry    tag (u32) | type (u32) | offset (i32) | count (u32)           *)
(*   store    dsize bytes                                                  *)
(*                                                                         *)
(* TLC integers are 32-bit: u32 fields are read only where the format      *)
(* bounds them below 2^31 (`Small`), signed offsets with I32, and          *)
(* arbitrary 32/64-bit *values* are carried as base-2^16 digit vectors.    *)
(***************************************************************************)
EXTENDS Naturals, Integers, Sequences

B(b, at)     == b[at + 1]
InB(b, at)   == at >= 0 /\ at < Len(b)
U16(b, at)   == B(b, at) * 256 + B(b, at + 1)
Small(b, at) == B(b, at) < 128
U32(b, at)   == ((B(b, at) * 256 + B(b, at + 1)) * 256 + B(b, at + 2)) * 256 + B(b, at + 3)
I32(b, at)   == IF B(b, at) < 128 THEN U32(b, at)
                ELSE (((B(b, at) - 256) * 256 + B(b, at + 1)) * 256 + B(b, at + 2)) * 256 + B(b, at + 3)
U32d(b, at)  == <<U16(b, at), U16(b, at + 2)>>
U64d(b, at)  == <<U16(b, at), U16(b, at + 2), U16(b, at + 4), U16(b, at + 6)>>

Pad(n, k) == (k - (n % k)) % k

\* rpm's header magic is eight bytes: the four below and four zero ("reserved") bytes
ReservedZero(b, h) == InB(b, h + 7) /\ B(b, h + 4) = 0 /\ B(b, h + 5) = 0 /\ B(b, h + 6) = 0 /\ B(b, h + 7) = 0
Magic(b, h)   == InB(b, h + 3) /\ B(b, h) = 142 /\ B(b, h + 1) = 173 /\ B(b, h + 2) = 232 /\ B(b, h + 3) = 1
IntroSmall(b, h) == InB(b, h + 15) /\ Small(b, h + 8) /\ Small(b, h + 12)
NIndex(b, h)  == U32(b, h + 8)
DSize(b, h)   == U32(b, h + 12)
HdrLen(b, h)  == 16 + 16 * NIndex(b, h) + DSize(b, h)
\* the intro fields are small enough that HdrLen cannot overflow and the header fits in b
Fits(b, h)    == /\ IntroSmall(b, h) /\ NIndex(b, h) <= 65535 * 16 /\ DSize(b, h) <= 268435455
                 /\ h + HdrLen(b, h) <= Len(b)
StoreAt(b, h) == h + 16 + 16 * NIndex(b, h)

EntryPos(h, k)   == h + 16 + 16 * (k - 1)
EntrySmall(b, p) == Small(b, p) /\ Small(b, p + 4) /\ Small(b, p + 12)
EntryAt(b, p)    == [tag |-> U32(b, p), type |-> U32(b, p + 4), offset |-> I32(b, p + 8), count |-> U32(b, p + 12)]
Entry(b, h, k)   == EntryAt(b, EntryPos(h, k))

TNull == 0   TChar == 1   TInt8 == 2   TInt16 == 3   TInt32 == 4   TInt64 == 5
TString == 6   TBin == 7   TStrArr == 8   TI18n == 9

Align(t) == IF t = TInt16 THEN 2 ELSE IF t = TInt32 THEN 4 ELSE IF t = TInt64 THEN 8 ELSE 1
Width(t) == IF t = TInt16 THEN 2 ELSE IF t = TInt32 THEN 4 ELSE IF t = TInt64 THEN 8 ELSE 1

\* position (0-based in b) of the first NUL at or after `from` and before `lim`, or -1
RECURSIVE NulAt(_, _, _)
NulAt(b, from, lim) == IF from >= lim THEN -1 ELSE IF B(b, from) = 0 THEN from ELSE NulAt(b, from + 1, lim)

\* end (exclusive, 0-based in b) of `cnt` consecutive NUL-terminated strings starting at `from`, or -1
RECURSIVE StringsEnd(_, _, _, _)
StringsEnd(b, from, lim, cnt) ==
    IF cnt = 0 THEN from
    ELSE LET z == NulAt(b, from, lim) IN IF z < 0 THEN -1 ELSE StringsEnd(b, z + 1, lim, cnt - 1)

\* length in bytes of entry e's data inside the store [s0, lim), or -1 if it does not fit
DataLen(b, s0, lim, e) ==
    IF e.type \in {TString, TStrArr, TI18n} THEN
        (IF e.offset < 0 \/ s0 + e.offset > lim THEN -1
         ELSE LET z == StringsEnd(b, s0 + e.offset, lim, e.count) IN
              IF z < 0 THEN -1 ELSE z - (s0 + e.offset))
    ELSE IF e.count > 268435455 THEN -1
    ELSE Width(e.type) * e.count

---------------------------------------------------------------------------
(* rpm's header-loading rules (its hdrblobVerify family): the validity of a header   *)
(* with region tag R whose intro starts at h.                              *)
HdrChk(b, h, R) ==
    /\ Magic(b, h) /\ Fits(b, h)
    /\ LET n  == NIndex(b, h)
           dl == DSize(b, h)
           s0 == StoreAt(b, h)
           E(k) == Entry(b, h, k)
       IN
       /\ n >= 1 /\ n <= 65535
       /\ \A k \in 1..n : EntrySmall(b, EntryPos(h, k))
       \* the region tag comes first; its trailer sits at the end of the store and points back
       /\ E(1).tag = R /\ E(1).type = TBin /\ E(1).count = 16
       /\ E(1).offset = dl - 16 /\ E(1).offset >= 0
       /\ LET tp == s0 + E(1).offset IN
          /\ EntrySmall(b, tp)
          /\ EntryAt(b, tp).tag = R /\ EntryAt(b, tp).type = TBin /\ EntryAt(b, tp).count = 16
          /\ EntryAt(b, tp).offset = -(16 * n)
       /\ \A k \in 2..n :
            LET e == E(k)  len == DataLen(b, s0, s0 + E(1).offset, e) IN
            /\ e.tag >= 100
            /\ (k > 2 => E(k - 1).tag < e.tag)                      \* strictly ascending
            /\ e.type \in 1..9 /\ e.count >= 1
            /\ (e.type = TString => e.count = 1)
            /\ e.offset >= 0 /\ e.offset <= E(1).offset /\ e.offset % Align(e.type) = 0
            /\ len > 0 /\ len <= E(1).offset - e.offset              \* in range, before the trailer
            /\ (k > 2 => LET p == E(k - 1)
                             pl == DataLen(b, s0, s0 + E(1).offset, p)
                         IN p.offset + pl <= e.offset)               \* laid out in order, no overlap

\* rpm also loads headers whose region covers only the first ril entries, further ("dribble") entries
\* having been appended after it - in the index and, behind the trailer, in the store.  Inside the
\* region the rules above hold; dribbles need not continue the ascending order.  For reading (C05) a
\* header is well formed in this wider sense, provided no tag occurs twice (so that "the tag's value"
\* is unambiguous).
HdrChkLoose(b, h, R) ==
    /\ Magic(b, h) /\ Fits(b, h)
    /\ LET n  == NIndex(b, h)
           dl == DSize(b, h)
           s0 == StoreAt(b, h)
           E(k) == Entry(b, h, k)
       IN
       /\ n >= 1 /\ n <= 65535
       /\ \A k \in 1..n : EntrySmall(b, EntryPos(h, k))
       /\ E(1).tag = R /\ E(1).type = TBin /\ E(1).count = 16
       /\ E(1).offset >= 0 /\ E(1).offset <= dl - 16
       /\ LET tp == s0 + E(1).offset
              rdl == E(1).offset + 16
              toff == I32(b, tp + 8)
              ril == (0 - toff) \div 16
          IN
          /\ EntrySmall(b, tp)
          /\ EntryAt(b, tp).tag = R /\ EntryAt(b, tp).type = TBin /\ EntryAt(b, tp).count = 16
          /\ toff < 0 /\ toff >= 0 - 1048576 /\ (0 - toff) % 16 = 0 /\ ril >= 1 /\ ril <= n
          /\ \A k \in 2..n :
               LET e == E(k)
                   lim == IF k <= ril THEN s0 + E(1).offset ELSE s0 + dl
                   len == DataLen(b, s0, lim, e) IN
               /\ e.tag >= 100
               /\ (k > 2 /\ k <= ril => E(k - 1).tag < e.tag)
               /\ e.type \in 1..9 /\ e.count >= 1 /\ (e.type = TString => e.count = 1)
               /\ e.offset >= 0 /\ e.offset <= dl /\ e.offset % Align(e.type) = 0
               /\ (IF k <= ril THEN e.offset <= E(1).offset ELSE e.offset >= rdl)
               /\ len > 0
               /\ (IF k <= ril THEN len <= E(1).offset - e.offset ELSE len <= dl - e.offset)
               /\ (k > 2 /\ k # ril + 1 =>
                     LET p == E(k - 1)  pl == DataLen(b, s0, lim, p) IN p.offset + pl <= e.offset)
          /\ \A j, k \in 2..n : j # k => E(j).tag # E(k).tag

---------------------------------------------------------------------------
(* Independent decoding of entry data.  Strings are byte sequences;        *)
(* integers are digit vectors (see above).                                 *)
RECURSIVE StrList(_, _, _, _)
StrList(b, from, lim, cnt) ==
    IF cnt = 0 THEN <<>>
    ELSE LET z == NulAt(b, from, lim) IN
         <<SubSeq(b, from + 1, z)>> \o StrList(b, z + 1, lim, cnt - 1)

Str1(b, from, lim) == SubSeq(b, from + 1, NulAt(b, from, lim))
U16List(b, from, cnt) == [i \in 1..cnt |-> U16(b, from + 2 * (i - 1))]
U32List(b, from, cnt) == [i \in 1..cnt |-> U32d(b, from + 4 * (i - 1))]
U64List(b, from, cnt) == [i \in 1..cnt |-> U64d(b, from + 8 * (i - 1))]
ByteList(b, from, cnt) == SubSeq(b, from + 1, from + cnt)

\* index of the first entry carrying tag T, 0 if none
RECURSIVE FindTag(_, _, _, _, _)
FindTag(b, h, n, T, k) == IF k > n THEN 0 ELSE IF Entry(b, h, k).tag = T THEN k ELSE FindTag(b, h, n, T, k + 1)
Find(b, h, T) == FindTag(b, h, NIndex(b, h), T, 1)
=============================================================================
