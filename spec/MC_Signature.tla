---------------------------- MODULE MC_Signature ----------------------------
(* Exhaustive exploration of the verification state machine driven by an    *)
(* arbitrary (possibly wrong) implementation: any sequence of <= 3 consults  *)
(* with any tag / data token / verdict, then any return.  The invariant says *)
(* that whenever the machine lets `ok` through, the conditions of C02 hold;  *)
(* coverage must show ReturnOk both taken and refused.                        *)
EXTENDS Signature, TLC
VARIABLE last
Toks == {"H", "HP", "X"}
Pkgs == [digests_ok : BOOLEAN, hdr_tok : {"H"}, hdrpayload_tok : {"HP"}]
Init == SigInit /\ last = "none"
Next == \/ (phase = "idle" /\ last = "none" /\ \E p \in Pkgs : Begin(p) /\ UNCHANGED last)
        \/ (Len(consulted) < 3 /\ \E t \in KnownTags \cup {"unknown"}, x \in Toks, v \in {"accept", "reject"} :
               Consult(t, x, v) /\ UNCHANGED last)
        \/ (ReturnOk /\ last' = "ok")
        \/ (ReturnErr /\ last' = "err")
Spec == Init /\ [][Next]_<<sigvars, last>>
Safe == NoFreeSuccess(last)
OkNeedsConsult == last = "ok" => Len(consulted) >= 1
OkNeedsDigests == last = "ok" => pkg.digests_ok
=============================================================================
