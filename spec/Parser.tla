------------------------------- MODULE Parser -------------------------------
(***************************************************************************)
(* The header reader as an explicit state machine over an abstract header  *)
(* description (C04).  pc walks intro -> index(k) -> decode(k) -> done, or  *)
(* ends in err(why).  Every way a field can be out of range is a separate   *)
(* failure transition; MC_Parser explores the product of boundary classes,  *)
(* checks that the machine never reads outside the bytes it was given and   *)
(* always stops, and that every failure transition is reachable - each is   *)
(* one family of generated implementation tests (Gen_Hostile).              *)
(* The transition function StepF is shared by the behaviour specification   *)
(* (st' = StepF(hdr, st)) and the big-step Outcome used for reachability.   *)
(***************************************************************************)
EXTENDS Naturals, Integers, Sequences

CONSTANTS Avail      \* number of bytes actually available after the intro

NClass == {0, 1, 2, 9}
DClass == {0, 4, 9}
Entry == [type : 0..10, offset : {-1, 0, 3, 4, 5}, count : {0, 1, 4, 5, 99}, terminated : BOOLEAN]
Width(t) == IF t = 3 THEN 2 ELSE IF t = 4 THEN 4 ELSE IF t = 5 THEN 8 ELSE 1
Whys == {"ShortIndexOrStore", "IllegalType", "NegativeOffset", "OffsetOutOfRange", "UnterminatedString", "CountExceedsStore"}

St0 == [pc |-> "intro", why |-> "", k |-> 1, reads |-> {}]
Fail(st, w) == [st EXCEPT !.pc = "err", !.why = w]
Stopped(st) == st.pc \in {"done", "err"}

StepF(h, st) ==
    IF st.pc = "intro" THEN
        IF 16 * h.nindex + h.dsize > Avail THEN Fail(st, "ShortIndexOrStore")
        ELSE [st EXCEPT !.pc = "index", !.reads = @ \cup {<<"intro", 0, 0>>}]
    ELSE IF st.pc = "index" THEN
        IF st.k > h.nindex \/ st.k > Len(h.entries) THEN [st EXCEPT !.pc = "decode", !.k = 1]
        ELSE IF h.entries[st.k].type > 9 THEN Fail(st, "IllegalType")
        ELSE [st EXCEPT !.k = @ + 1]
    ELSE IF st.pc = "decode" THEN
        IF st.k > h.nindex \/ st.k > Len(h.entries) THEN [st EXCEPT !.pc = "done"]
        ELSE LET e == h.entries[st.k] IN
             IF e.offset < 0 THEN Fail(st, "NegativeOffset")
             ELSE IF e.offset > h.dsize THEN Fail(st, "OffsetOutOfRange")
             ELSE IF e.type \in {8, 9} /\ e.count > 0 /\ ~e.terminated THEN Fail(st, "UnterminatedString")
             ELSE IF e.type \in {1, 2, 3, 4, 5, 7} /\ e.offset + Width(e.type) * e.count > h.dsize THEN Fail(st, "CountExceedsStore")
             ELSE [st EXCEPT !.k = @ + 1,
                             !.reads = @ \cup {<<"data", e.offset, IF e.type \in {1, 2, 3, 4, 5, 7} THEN e.offset + Width(e.type) * e.count ELSE h.dsize>>}]
    ELSE st

RECURSIVE RunF(_, _, _)
RunF(h, st, fuel) == IF Stopped(st) \/ fuel = 0 THEN st ELSE RunF(h, StepF(h, st), fuel - 1)
Outcome(h) == LET s == RunF(h, St0, 64) IN IF s.pc = "err" THEN s.why ELSE IF s.pc = "done" THEN "ok" ELSE "diverges"

InBounds(h, st) == \A r \in st.reads : r[1] = "intro" \/ (r[2] >= 0 /\ r[3] <= h.dsize)
=============================================================================
