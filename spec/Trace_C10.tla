------------------------------ MODULE Trace_C10 ------------------------------
(* Replays recorded histories through the SignHistory state machine: each   *)
(* Step event carries the operation applied and what was observed after it. *)
EXTENDS SignHistory, TraceBase
VARIABLES l, rej, nrej
vars == <<l, rej, nrej, shvars>>
R == Rec[l]

ObsMatches(o, s) ==
    /\ \A k \in Keys : o.verifies[k] = Obs(s).verifies[k]
    /\ (s \in Keys => o.signed_by = s)              \* exactly that key's id is reported
    \* after a clear nobody has signed: a signer id still being reported means an older signature is
    \* still embedded, which its key would verify - contradicting "iff ... since the last clear"
    /\ (s = "none" => o.signed_by = "none-reported")
    /\ o.digests_ok = TRUE /\ o.header_same = TRUE /\ o.payload_same = TRUE /\ o.files_same = TRUE
    /\ o.panicked = FALSE

Init == l = 1 /\ rej = <<>> /\ nrej = 0 /\ signer = "none" /\ hist = <<>>
Start == /\ R.event = "Start" /\ signer' = R.start /\ hist' = <<>> /\ l' = l + 1
         /\ IF ObsMatches(R.obs, R.start) THEN UNCHANGED <<rej, nrej>>
            ELSE LET y == NoteReject(rej, nrej, l, "Start") IN rej' = y.rej /\ nrej' = y.nrej
Step == /\ R.event = "Step" /\ l' = l + 1
        /\ (  (R.op = "sign" /\ R.key \in Keys /\ Sign(R.key))
           \/ (R.op = "clear" /\ Clear) \/ (R.op = "reparse" /\ Reparse))
        /\ IF ObsMatches(R.obs, signer') THEN UNCHANGED <<rej, nrej>>
           ELSE LET y == NoteReject(rej, nrej, l, "Step") IN rej' = y.rej /\ nrej' = y.nrej
Other == /\ R.event \notin {"Start", "Step"} /\ l' = l + 1 /\ UNCHANGED shvars
         /\ LET y == NoteReject(rej, nrej, l, R.event) IN rej' = y.rej /\ nrej' = y.nrej
Next == l <= N /\ (Start \/ Step \/ Other)
Spec == Init /\ [][Next]_vars
Finished == (l = N + 1) => WriteVerdict(rej, nrej)
=============================================================================
