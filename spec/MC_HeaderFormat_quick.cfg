SPECIFICATION Spec
CONSTANT Three = FALSE
INVARIANTS Clean Refused Wider Dribble Total
CHECK_DEADLOCK FALSE
