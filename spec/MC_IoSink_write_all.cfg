SPECIFICATION Spec
CONSTANTS
  Segs <- SegsDef
  Design = "write_all"
  MaxResp = 8
INVARIANT Safe
CHECK_DEADLOCK FALSE
