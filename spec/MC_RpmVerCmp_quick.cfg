SPECIFICATION Spec
CONSTANTS
  Sigma <- Sigma8
  MaxLen = 2
  TriSigma <- Sigma5
  TriMaxLen = 2
  Shard = 0
  Shards = 1
INVARIANTS StopsWithResult Progress Agree Transitive
CHECK_DEADLOCK FALSE
