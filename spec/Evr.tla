--------------------------------- MODULE Evr ---------------------------------
(***************************************************************************)
(* C15: textual forms of EVR and NEVRA over code sequences.                *)
(*   FormatEvr   [e:]v-r            NormalEvr   (e or 0):v-r                *)
(*   FormatNevra n-[e:]v-r.a        NormalNevra n-(e or 0):v-r.a            *)
(* ParseNevra is the reference reading: the architecture follows the last  *)
(* '.', the release the last '-', the (epoch:)version the second-to-last   *)
(* '-'; everything before is the name (names may contain '-' and '.').     *)
(* `Real*` delimit the component values a real package can carry.          *)
(***************************************************************************)
EXTENDS Naturals, Sequences

Dash == 45   Colon == 58   Dot == 46   Zero == 48
IsDigitC(c) == c >= 48 /\ c <= 57
Has(s, c)   == \E i \in 1..Len(s) : s[i] = c

FormatEvr(x) == (IF x.e # <<>> THEN x.e \o <<Colon>> ELSE <<>>) \o x.v \o <<Dash>> \o x.r
NormalEvr(x) == (IF x.e # <<>> THEN x.e ELSE <<Zero>>) \o <<Colon>> \o x.v \o <<Dash>> \o x.r
FormatNevra(x) == x.n \o <<Dash>> \o FormatEvr(x) \o <<Dot>> \o x.a
NormalNevra(x) == x.n \o <<Dash>> \o NormalEvr(x) \o <<Dot>> \o x.a

RECURSIVE FirstIdx(_, _, _)     \* first index >= i holding c, 0 if none
FirstIdx(s, c, i) == IF i > Len(s) THEN 0 ELSE IF s[i] = c THEN i ELSE FirstIdx(s, c, i + 1)
RECURSIVE LastIdx(_, _, _)      \* last index <= i holding c, 0 if none
LastIdx(s, c, i) == IF i < 1 THEN 0 ELSE IF s[i] = c THEN i ELSE LastIdx(s, c, i - 1)

ParseEvr(s) ==
    LET c  == FirstIdx(s, Colon, 1)
        e  == IF c = 0 THEN <<>> ELSE SubSeq(s, 1, c - 1)
        vr == IF c = 0 THEN s ELSE SubSeq(s, c + 1, Len(s))
        d  == LastIdx(vr, Dash, Len(vr))
    IN [e |-> e,
        v |-> IF d = 0 THEN vr ELSE SubSeq(vr, 1, d - 1),
        r |-> IF d = 0 THEN <<>> ELSE SubSeq(vr, d + 1, Len(vr))]

ParseNevra(s) ==
    LET d2  == LastIdx(s, Dash, Len(s))                       \* before the release
        d1  == IF d2 = 0 THEN 0 ELSE LastIdx(s, Dash, d2 - 1) \* before the (epoch:)version
        ra  == SubSeq(s, d2 + 1, Len(s))
        dot == LastIdx(ra, Dot, Len(ra))
        ev  == SubSeq(s, d1 + 1, d2 - 1)
        c   == FirstIdx(ev, Colon, 1)
    IN [n |-> SubSeq(s, 1, d1 - 1),
        e |-> IF c = 0 THEN <<>> ELSE SubSeq(ev, 1, c - 1),
        v |-> IF c = 0 THEN ev ELSE SubSeq(ev, c + 1, Len(ev)),
        r |-> IF dot = 0 THEN ra ELSE SubSeq(ra, 1, dot - 1),
        a |-> IF dot = 0 THEN <<>> ELSE SubSeq(ra, dot + 1, Len(ra))]

RealEpoch(e)   == \A i \in 1..Len(e) : IsDigitC(e[i])
RealVersion(v) == v # <<>> /\ ~Has(v, Dash) /\ ~Has(v, Colon)
RealRelease(r) == r # <<>> /\ ~Has(r, Dash) /\ ~Has(r, Colon)
RealName(n)    == n # <<>> /\ ~Has(n, Colon)
RealArch(a)    == a # <<>> /\ ~Has(a, Dot) /\ ~Has(a, Dash) /\ ~Has(a, Colon)
RealEvr(x)     == RealEpoch(x.e) /\ RealVersion(x.v) /\ RealRelease(x.r)
RealNevra(x)   == RealName(x.n) /\ RealEvr(x) /\ RealArch(x.a)

Evr3(x) == [e |-> x.e, v |-> x.v, r |-> x.r]
\* the normalised form always carries an epoch: a non-empty digit-or-given prefix before the first ':'
NormalHasEpoch(t) == FirstIdx(t, Colon, 1) > 1

CompressionNames == {"none", "gzip", "zstd", "xz", "bzip2"}
=============================================================================
