----------------------------- MODULE PackageFile -----------------------------
(***************************************************************************)
(* A package file = lead (96 bytes) ++ signature header ++ padding to 8    *)
(* ++ main header ++ payload.  Layout algebra (C01, C16), the lead record  *)
(* (C09) and the accessor table (C05): which tag, with which data type,    *)
(* every metadata accessor reads, and what it must return.                 *)
(***************************************************************************)
EXTENDS HeaderFormat, RpmNames

LeadSize == 96
SigAt    == 96
SigFits(b)     == Len(b) >= SigAt + 16 /\ Fits(b, SigAt)
SigPadLen(b)   == Pad(DSize(b, SigAt), 8)
HdrAt(b)       == SigAt + HdrLen(b, SigAt) + SigPadLen(b)
HdrFits(b)     == SigFits(b) /\ Len(b) >= HdrAt(b) + 16 /\ Fits(b, HdrAt(b))
PayloadAt(b)   == HdrAt(b) + HdrLen(b, HdrAt(b))

\* 0-based positions whose content the writer may normalise to zero
Reserved(b)  == {SigAt + i : i \in 4..7} \cup {HdrAt(b) + i : i \in 4..7}
SigPadPos(b) == (SigAt + HdrLen(b, SigAt)) .. (HdrAt(b) - 1)
Zeroable(b)  == Reserved(b) \cup SigPadPos(b)

LeadMagic(b) == Len(b) >= 4 /\ B(b, 0) = 237 /\ B(b, 1) = 171 /\ B(b, 2) = 238 /\ B(b, 3) = 219

\* rpm's lead checks (rpmLeadCheck): magic, major version 3 or 4, signature type 5 (header-style),
\* plus the field values every rpm-built binary package carries
LeadOk(b) == /\ Len(b) >= LeadSize /\ LeadMagic(b)
             /\ B(b, 4) \in {3, 4}
             /\ U16(b, 6) \in {0, 1}              \* binary / source
             /\ U16(b, 78) = 5                     \* RPMSIGTYPE_HEADERSIG
             /\ B(b, 10 + 65) = 0                  \* name is NUL-terminated inside its 66 bytes

SigPadZero(b) == \A p \in SigPadPos(b) : B(b, p) = 0

---------------------------------------------------------------------------
(* C05: accessor table.  Results are either [ok |-> value] or [err |-> variant].       *)
Ok(v)   == [ok |-> v]
ErrV(v) == [err |-> v]
IsErr(x) == "err" \in DOMAIN x

\* generic typed getters on the header at h; `types` = the data types the getter accepts
Sel(b, h, T, types) ==
    LET k == Find(b, h, T) IN
    IF k = 0 THEN ErrV("TagNotFound")
    ELSE IF Entry(b, h, k).type \notin types THEN ErrV("UnexpectedTagDataType")
    ELSE Ok(k)

Lim(b, h)    == StoreAt(b, h) + DSize(b, h)
Off(b, h, k) == StoreAt(b, h) + Entry(b, h, k).offset
Cnt(b, h, k) == Entry(b, h, k).count

GetStr(b, h, T)    == LET s == Sel(b, h, T, {TString}) IN
                      IF IsErr(s) THEN s ELSE Ok(Str1(b, Off(b, h, s.ok), Lim(b, h)))
GetI18n(b, h, T)   == LET s == Sel(b, h, T, {TI18n}) IN
                      IF IsErr(s) THEN s ELSE Ok(Str1(b, Off(b, h, s.ok), Lim(b, h)))
GetStrArr(b, h, T) == LET s == Sel(b, h, T, {TStrArr, TI18n}) IN
                      IF IsErr(s) THEN s ELSE Ok(StrList(b, Off(b, h, s.ok), Lim(b, h), Cnt(b, h, s.ok)))
GetU32(b, h, T)    == LET s == Sel(b, h, T, {TInt32}) IN
                      IF IsErr(s) THEN s ELSE Ok(U32d(b, Off(b, h, s.ok)))
GetU64(b, h, T)    == LET s == Sel(b, h, T, {TInt64}) IN
                      IF IsErr(s) THEN s ELSE Ok(U64d(b, Off(b, h, s.ok)))
GetU16Arr(b, h, T) == LET s == Sel(b, h, T, {TInt16}) IN
                      IF IsErr(s) THEN s ELSE Ok(U16List(b, Off(b, h, s.ok), Cnt(b, h, s.ok)))
GetU32Arr(b, h, T) == LET s == Sel(b, h, T, {TInt32}) IN
                      IF IsErr(s) THEN s ELSE Ok(U32List(b, Off(b, h, s.ok), Cnt(b, h, s.ok)))
GetU64Arr(b, h, T) == LET s == Sel(b, h, T, {TInt64}) IN
                      IF IsErr(s) THEN s ELSE Ok(U64List(b, Off(b, h, s.ok), Cnt(b, h, s.ok)))
GetBin(b, h, T)    == LET s == Sel(b, h, T, {TBin}) IN
                      IF IsErr(s) THEN s ELSE Ok(ByteList(b, Off(b, h, s.ok), Cnt(b, h, s.ok)))

\* simple accessors: name -> <<kind, tag>>
Simple == [ get_name |-> <<"str", 1000>>, get_version |-> <<"str", 1001>>, get_release |-> <<"str", 1002>>,
            get_epoch |-> <<"u32", 1003>>, get_summary |-> <<"i18n", 1004>>, get_description |-> <<"i18n", 1005>>,
            get_build_time |-> <<"u32", 1006>>, get_build_host |-> <<"str", 1007>>, get_vendor |-> <<"str", 1011>>,
            get_license |-> <<"str", 1014>>, get_packager |-> <<"str", 1015>>, get_group |-> <<"i18n", 1016>>,
            get_url |-> <<"str", 1020>>, get_arch |-> <<"str", 1022>>, get_source_rpm |-> <<"str", 1044>>,
            get_cookie |-> <<"str", 1094>>, get_vcs |-> <<"str", 5034>> ]

SimpleExpected(b, h, kt) ==
    CASE kt[1] = "str"  -> GetStr(b, h, kt[2])
      [] kt[1] = "i18n" -> GetI18n(b, h, kt[2])
      [] kt[1] = "u32"  -> GetU32(b, h, kt[2])

Least(a, c) == IF a < c THEN a ELSE c
Least3(a, c, d) == Least(a, Least(c, d))

\* dependency lists: names / flags / versions zipped; all three absent => empty list
DepTags == [ get_provides |-> <<1047, 1112, 1113>>, get_requires |-> <<1049, 1048, 1050>>,
             get_conflicts |-> <<1054, 1053, 1055>>, get_obsoletes |-> <<1090, 1114, 1115>>,
             get_recommends |-> <<5046, 5048, 5047>>, get_suggests |-> <<5049, 5051, 5050>>,
             get_enhances |-> <<5055, 5057, 5056>>, get_supplements |-> <<5052, 5054, 5053>> ]

Zip3(b, h, t) ==     \* t = <<names tag, u32 tag, strings tag>>
    LET n == GetStrArr(b, h, t[1])  f == GetU32Arr(b, h, t[2])  v == GetStrArr(b, h, t[3]) IN
    IF IsErr(n) /\ IsErr(f) /\ IsErr(v) /\ n.err = "TagNotFound" /\ f.err = "TagNotFound" /\ v.err = "TagNotFound"
        THEN Ok(<<>>)
    ELSE IF IsErr(n) THEN n ELSE IF IsErr(f) THEN f ELSE IF IsErr(v) THEN v
    ELSE LET m == Least3(Len(n.ok), Len(f.ok), Len(v.ok)) IN
         Ok([i \in 1..m |-> [a |-> n.ok[i], b |-> f.ok[i], c |-> v.ok[i]]])

DepsExpected(b, h, t) == Zip3(b, h, t)
\* changelog: name / time / text
ChangelogExpected(b, h) ==
    LET n == GetStrArr(b, h, 1081)  f == GetU32Arr(b, h, 1080)  v == GetStrArr(b, h, 1082) IN
    IF IsErr(n) /\ IsErr(f) /\ IsErr(v) /\ n.err = "TagNotFound" /\ f.err = "TagNotFound" /\ v.err = "TagNotFound"
        THEN Ok(<<>>)
    ELSE IF IsErr(n) THEN n ELSE IF IsErr(f) THEN f ELSE IF IsErr(v) THEN v
    ELSE LET m == Least3(Len(n.ok), Len(f.ok), Len(v.ok)) IN
         Ok([i \in 1..m |-> [a |-> n.ok[i], b |-> f.ok[i], c |-> v.ok[i]]])

\* file paths: dirnames[dirindexes[i]] ++ basenames[i]
InstalledSizeExpected(b, h) ==
    LET l == GetU64(b, h, 5009) IN
    IF ~IsErr(l) THEN l
    ELSE LET s == GetU32(b, h, 1009) IN IF IsErr(s) THEN s ELSE Ok(<<0, 0>> \o s.ok)

Lo(d) == d[Len(d)]                     \* low 16-bit digit
IsSmallIdx(d) == \A i \in 1..(Len(d) - 1) : d[i] = 0

FilePathsExpected(b, h) ==
    LET bn == GetStrArr(b, h, 1117)  di == GetU32Arr(b, h, 1116)  dn == GetStrArr(b, h, 1118) IN
    IF IsErr(bn) /\ IsErr(di) /\ IsErr(dn) /\ bn.err = "TagNotFound" /\ di.err = "TagNotFound" /\ dn.err = "TagNotFound"
        THEN Ok(<<>>)
    ELSE IF IsErr(bn) THEN bn ELSE IF IsErr(di) THEN di ELSE IF IsErr(dn) THEN dn
    ELSE LET m == Least(Len(bn.ok), Len(di.ok))
             bad == \E i \in 1..m : ~IsSmallIdx(di.ok[i]) \/ Lo(di.ok[i]) >= Len(dn.ok)
         IN IF bad THEN ErrV("InvalidTagIndex")
            ELSE Ok([i \in 1..m |-> dn.ok[Lo(di.ok[i]) + 1] \o bn.ok[i]])

None == [none |-> TRUE]
Opt(x) == IF IsErr(x) THEN None ELSE [some |-> x.ok]

\* file entries: paths zipped with users, groups, modes, digests, mtimes, sizes (64-bit tag first, else
\* 32-bit), flags, link targets; capabilities optional.  No FILEMODES tag: the documented empty list.
\* A required tag absent or wrongly typed: an error (which one is not fixed by the documentation).
Widen(d) == <<0, 0>> \o d
HexLenOk(algo, n) == (algo = 1 /\ n = 32) \/ (algo = 8 /\ n = 64) \/ (algo = 9 /\ n = 96) \/ (algo = 10 /\ n = 128) \/ (algo = 11 /\ n = 56)
FileEntriesExpected(b, h) ==      \* (IMA signatures live in the signature header at SigAt, tag 274)
    LET modes == GetU16Arr(b, h, 1030)
        ima == GetStrArr(b, SigAt, 274)
        imaBad == IsErr(ima) /\ ima.err # "TagNotFound" IN
    IF IsErr(modes) /\ modes.err = "TagNotFound" THEN Ok(<<>>)
    ELSE LET users == GetStrArr(b, h, 1039)  groups == GetStrArr(b, h, 1040)  digs == GetStrArr(b, h, 1035)
             mt == GetU32Arr(b, h, 1034)  fl == GetU32Arr(b, h, 1037)  lk == GetStrArr(b, h, 1036)
             s64 == GetU64Arr(b, h, 5008)  s32 == GetU32Arr(b, h, 1028)
             sizes == IF ~IsErr(s64) THEN s64 ELSE IF ~IsErr(s32) THEN Ok([i \in 1..Len(s32.ok) |-> Widen(s32.ok[i])]) ELSE s32
             caps == GetStrArr(b, h, 5010)
             capsBad == IsErr(caps) /\ caps.err # "TagNotFound"
             paths == FilePathsExpected(b, h)
             a == GetU32(b, h, 5011)
             algo == IF IsErr(a) \/ ~IsSmallIdx(a.ok) \/ Lo(a.ok) \notin {1, 8, 9, 10, 11, 12, 14} THEN 1 ELSE Lo(a.ok)
         IN IF IsErr(modes) \/ IsErr(users) \/ IsErr(groups) \/ IsErr(digs) \/ IsErr(mt) \/ IsErr(sizes) \/ IsErr(fl)
               \/ IsErr(lk) \/ capsBad \/ imaBad \/ IsErr(paths) THEN ErrV("any")
            ELSE LET m == Least(Least(Least3(Len(paths.ok), Len(users.ok), Len(groups.ok)), Least3(Len(modes.ok), Len(digs.ok), Len(mt.ok))),
                              Least3(Len(sizes.ok), Len(fl.ok), Len(lk.ok))) IN
                 IF \E i \in 1..m : digs.ok[i] # <<>> /\ ~HexLenOk(algo, Len(digs.ok[i])) THEN ErrV("any")
                 ELSE Ok([i \in 1..m |->
                        [path |-> paths.ok[i], user |-> users.ok[i], group |-> groups.ok[i], mode |-> modes.ok[i],
                         digest |-> IF digs.ok[i] = <<>> THEN None ELSE [some |-> digs.ok[i]],
                         mtime |-> mt.ok[i], size |-> sizes.ok[i], flags |-> fl.ok[i], linkto |-> lk.ok[i],
                         caps |-> IF IsErr(caps) \/ i > Len(caps.ok) THEN None ELSE [some |-> caps.ok[i]],
                         ima |-> IF IsErr(ima) \/ i > Len(ima.ok) THEN None ELSE [some |-> ima.ok[i]]]])

\* scriptlets: script (string) required; flags (u32) and prog (string array) optional
ScriptTags == [ get_pre_install_script |-> <<1023, 5020, 1085>>, get_post_install_script |-> <<1024, 5021, 1086>>,
                get_pre_uninstall_script |-> <<1025, 5022, 1087>>, get_post_uninstall_script |-> <<1026, 5023, 1088>>,
                get_pre_trans_script |-> <<1151, 5024, 1153>>, get_post_trans_script |-> <<1152, 5025, 1154>>,
                get_pre_untrans_script |-> <<5103, 5107, 5105>>, get_post_untrans_script |-> <<5104, 5108, 5106>> ]
ScriptExpected(b, h, t) ==
    LET s == GetStr(b, h, t[1]) IN
    IF IsErr(s) THEN s
    ELSE Ok([script |-> s.ok, flags |-> Opt(GetU32(b, h, t[2])), prog |-> Opt(GetStrArr(b, h, t[3]))])

---------------------------------------------------------------------------
(* C09: the rpmlib() features a package uses must be declared among its requires *)
ReqNames(b, h) == LET r == GetStrArr(b, h, 1049) IN IF IsErr(r) THEN <<>> ELSE r.ok
HasReq(b, h, n) == \E i \in 1..Len(ReqNames(b, h)) : ReqNames(b, h)[i] = n
Compressor(b, h) == LET c == GetStr(b, h, 1125) IN IF IsErr(c) THEN S_NoneC ELSE c.ok
UsesCaps(b, h) == LET c == GetStrArr(b, h, 5010) IN ~IsErr(c) /\ \E i \in 1..Len(c.ok) : c.ok[i] # <<>>
RpmlibOk(b, h) ==
    /\ (Find(b, h, 1117) # 0 => HasReq(b, h, S_CompressedFileNames) /\ HasReq(b, h, S_PayloadFilesHavePrefix))
    /\ (Find(b, h, 5011) # 0 => HasReq(b, h, S_FileDigests))
    /\ (Compressor(b, h) = S_Zstd  => HasReq(b, h, S_PayloadIsZstd))
    /\ (Compressor(b, h) = S_Xz    => HasReq(b, h, S_PayloadIsXz))
    /\ (Compressor(b, h) = S_Bzip2 => HasReq(b, h, S_PayloadIsBzip2))
    /\ (UsesCaps(b, h) => HasReq(b, h, S_FileCaps))
    /\ (Find(b, h, 5008) # 0 => HasReq(b, h, S_LargeFiles))
=============================================================================
