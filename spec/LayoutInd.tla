----------------------------- MODULE LayoutInd -----------------------------
(* C16 / C18 arithmetic lemmas over UNBOUNDED integers, for Apalache:       *)
(* for every entry count and store size of both headers the segment        *)
(* boundaries are strictly increasing, the padding is the unique value in   *)
(* 0..7 that 8-aligns the signature store, and a mode word splits into     *)
(* type and permission bits that recombine to it.                           *)
EXTENDS Integers

VARIABLES
    \* @type: Int;
    ns,
    \* @type: Int;
    ds,
    \* @type: Int;
    nh,
    \* @type: Int;
    dh,
    \* @type: Int;
    w

Pad(n, k) == (k - (n % k)) % k
Init == ns \in Nat /\ ds \in Nat /\ nh \in Nat /\ dh \in Nat /\ w \in 0..65535
Next == UNCHANGED <<ns, ds, nh, dh, w>>
SigAt == 96
HdrAt == SigAt + 16 + 16 * ns + ds + Pad(ds, 8)
PayloadAt == HdrAt + 16 + 16 * nh + dh
Increasing == 0 < SigAt /\ SigAt < HdrAt /\ HdrAt < PayloadAt
Aligned == (ds + Pad(ds, 8)) % 8 = 0 /\ Pad(ds, 8) >= 0 /\ Pad(ds, 8) <= 7
Unique == \A p \in 0..7 : ((ds + p) % 8 = 0) => p = Pad(ds, 8)
ModeAlgebra == ((w \div 4096) * 4096) + (w % 4096) = w /\ (w % 4096) <= 4095 /\ ((w \div 4096) * 4096) % 4096 = 0
Inv == Increasing /\ Aligned /\ Unique /\ ModeAlgebra
=============================================================================
