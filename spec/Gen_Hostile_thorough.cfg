SPECIFICATION Spec
CONSTANT Thorough = TRUE
CHECK_DEADLOCK FALSE
