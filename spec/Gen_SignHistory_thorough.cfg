SPECIFICATION Spec
CONSTANTS
  Keys = {"rsa4096", "rsa3072p", "ed25519", "ecdsa", "assetsub"}
  MaxLen = 4
CHECK_DEADLOCK FALSE
