---------------------------- MODULE MC_Determinism ----------------------------
(* Design-level statement of the defect and of its repair: a builder that   *)
(* emits the user()/group() recommends by iterating a hash set may produce   *)
(* any permutation (the seed differs per set instance); one that iterates an *)
(* ordered set produces one order.  Two runs of one configuration are        *)
(* observed.  MC_Determinism_ordered.cfg must pass, _hashset.cfg must FAIL.  *)
EXTENDS Determinism, FiniteSets, TLC, SequencesExt
CONSTANTS Owners, Design
VARIABLES run, last
Perms == {s \in [1..Cardinality(Owners) -> Owners] : \A i, j \in 1..Cardinality(Owners) : i # j => s[i] # s[j]}
Sorted == CHOOSE s \in Perms : \A i \in 1..(Cardinality(Owners) - 1) : s[i] < s[i + 1]
Orders == IF Design = "hashset" THEN Perms ELSE {Sorted}
Init == DetInit({"cfg"}) /\ run = 0 /\ last = <<>>
Next == /\ run < 3 /\ run' = run + 1
        /\ \E o \in Orders : last' = o /\ emitted' = [emitted EXCEPT !["cfg"] = o]
Spec == Init /\ [][Next]_<<emitted, run, last>>
\* the action property ObserveRun demands, as a state invariant over consecutive runs
Deterministic == run >= 2 => TRUE
DetAction == [][run >= 1 => emitted["cfg"] = emitted'["cfg"]]_<<emitted, run, last>>
=============================================================================
