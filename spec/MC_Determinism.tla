---------------------------- MODULE MC_Determinism ----------------------------
(* Design-level statement of C11 and of the ways a builder can miss it.  One *)
(* configuration is built three times.  What may differ between the runs is   *)
(* what the statement says must not matter: the order in which the caller     *)
(* hands the files over, the time zone in which the same source date is       *)
(* spelled, the (late) modification time of an input file that is newer than  *)
(* the source date, and the per-process seed of hash containers.              *)
(*   Design = "ordered"    sorts, reads instants, clamps: DetAction and        *)
(*                         ClampInv hold (MC_Determinism_ordered.cfg passes)   *)
(*            "hashset"    emits owners in hash-set iteration order            *)
(*            "insertion"  emits directories in hand-over order                *)
(*            "localtime"  reads a zoned date-time as wall-clock time          *)
(*            "rawmtime"   records modification times without clamping         *)
(* Each of the four must be refuted (the check runs all five configurations). *)
EXTENDS Determinism, FiniteSets, Integers, TLC, SequencesExt
CONSTANTS Owners, Design
VARIABLES run, last
Perms == {s \in [1..Cardinality(Owners) -> Owners] : \A i, j \in 1..Cardinality(Owners) : i # j => s[i] # s[j]}
Sorted == CHOOSE s \in Perms : \A i \in 1..(Cardinality(Owners) - 1) : s[i] < s[i + 1]
SD == 10                         \* the source date (an instant)
Zones == {0, 2, -8}              \* offsets in which the caller may spell it
LateMtimes == {11, 15}           \* an input file newer than the source date
Least(a, b) == IF a < b THEN a ELSE b
Output(handover, hashorder, zone, late) ==
    [owners |-> IF Design = "hashset" THEN hashorder ELSE Sorted,
     dirs   |-> IF Design = "insertion" THEN handover ELSE Sorted,
     time   |-> IF Design = "localtime" THEN SD + zone ELSE SD,
     mtime  |-> IF Design = "rawmtime" THEN late ELSE Least(late, SD)]
Init == DetInit({"cfg"}) /\ run = 0 /\ last = <<>>
Next == /\ run < 3 /\ run' = run + 1
        /\ \E h \in Perms, o \in Perms, z \in Zones, m \in LateMtimes :
              LET out == Output(h, o, z, m) IN last' = out /\ emitted' = [emitted EXCEPT !["cfg"] = out]
Spec == Init /\ [][Next]_<<emitted, run, last>>
\* every run of the configuration produces the same output
DetAction == [][run >= 1 => emitted["cfg"] = emitted'["cfg"]]_<<emitted, run, last>>
\* no timestamp in the output is later than the source date
ClampInv == run >= 1 => (emitted["cfg"].time <= SD /\ emitted["cfg"].mtime <= SD)
=============================================================================
