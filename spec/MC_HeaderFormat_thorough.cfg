SPECIFICATION Spec
CONSTANT Three = TRUE
INVARIANTS Clean Refused Wider Dribble Total
CHECK_DEADLOCK FALSE
