------------------------------ MODULE Trace_Rpm ------------------------------
(* Random walks over real packages, replayed through the Rpm state machine:  *)
(* Start (a built package), then one Walk event per operation carrying what   *)
(* was observed afterwards (verify_digests, verify_signature with each key).  *)
EXTENDS Rpm, TraceBase
VARIABLES l, rej, nrej
vars == <<l, rej, nrej, rvars>>
R == Rec[l]
\* Which direction of "observation = model" a property demands:
\*   C02  a reported success must be allowed by the model (no verification of tampered content, no digest
\*        success while a recorded digest cannot match)
\*   C08  after sign / clear the recorded header digest is true again, so with an untouched payload
\*        verify_digests must succeed; and it is *recorded*: present in the signature header and equal to the
\*        digest of the header as written - after a signing operation that failed, too
\*   C10  a package with true digests signed by k verifies with k
CONSTANT Mode
Matches(o) == /\ o.panicked = FALSE
              /\ CASE Mode = "C02" -> /\ (o.digests_ok => Obs'.digests_ok)
                                       /\ \A k \in Keys : o.verifies[k] => Obs'.verifies[k]
                   [] Mode = "C08" -> /\ (Obs'.digests_ok => o.digests_ok)
                                       /\ (Obs'.hdr_digest_true => o.hdr_digest_true)
                   [] Mode = "C10" -> \A k \in Keys : Obs'.verifies[k] => o.verifies[k]
Good == UNCHANGED <<rej, nrej>>
Bad(w) == LET y == NoteReject(rej, nrej, l, w) IN rej' = y.rej /\ nrej' = y.nrej
Init == l = 1 /\ rej = <<>> /\ nrej = 0 /\ RInit
Start == /\ R.event = "Start" /\ l' = l + 1
         /\ signer' = "none" /\ hdrDirty' = FALSE /\ payDirty' = FALSE /\ recDirty' = FALSE /\ sigDirty' = FALSE /\ steps' = 0
         /\ IF Matches(R.obs) THEN Good ELSE Bad("Start")
Walk == /\ R.event = "Walk" /\ l' = l + 1
        /\ (  (R.op = "sign" /\ R.key \in Keys /\ Sign(R.key)) \/ (R.op = "clear" /\ Clear) \/ (R.op = "reparse" /\ Reparse)
           \/ (R.op = "sign_fail" /\ SignFail)
           \/ (R.op = "tamper_header" /\ TamperHeader) \/ (R.op = "tamper_payload" /\ TamperPayload)
           \/ (R.op = "tamper_rec_digest" /\ TamperRecDigest) \/ (R.op = "tamper_sig_blob" /\ TamperSigBlob))
        /\ IF Matches(R.obs) THEN Good ELSE Bad(R.op)
Skip == R.event = "Skip" /\ l' = l + 1 /\ UNCHANGED rvars /\ Good          \* an inapplicable tamper: stuttering
Other == R.event \notin {"Start", "Walk", "Skip"} /\ l' = l + 1 /\ UNCHANGED rvars /\ Bad(R.event)
Next == l <= N /\ (Start \/ Walk \/ Skip \/ Other)
Spec == Init /\ [][Next]_vars
Finished == (l = N + 1) => WriteVerdict(rej, nrej)
=============================================================================
