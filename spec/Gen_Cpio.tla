------------------------------- MODULE Gen_Cpio -------------------------------
(* GEN for C07: foreign-style packages - header file lists of 1..3 files,   *)
(* every data size 0..5 (all residues mod 4), names covering every padding  *)
(* residue of the 110-byte header, any subset of files omitted from the     *)
(* archive (%ghost), any archive order, newc and stripped entries.          *)
EXTENDS Naturals, Sequences, FiniteSets, TLC, Json, IOUtils, SequencesExt
CONSTANT Thorough
Names == << <<97>>, <<98, 98>>, <<99, 99, 99>>, <<100, 100, 100, 100>> >>     \* a bb ccc dddd
Sz == IF Thorough THEN 0..5 ELSE {0, 1, 3, 4, 5}
Perm(S) == {s \in [1..Cardinality(S) -> S] : \A i, j \in 1..Cardinality(S) : i # j => s[i] # s[j]}
Orders(n) == UNION { Perm(S) : S \in SUBSET (1..n) }          \* which files are archived, in which order
Cases == { [n |-> n, names |-> [i \in 1..n |-> Names[((i + sh - 1) % 4) + 1]], sizes |-> sz, order |-> o, format |-> f]
             : n \in 1..3, sh \in 0..3, sz \in [1..3 -> Sz], o \in Orders(3), f \in {"newc", "stripped"} }
Valid(c) == \A i \in 1..Len(c.order) : c.order[i] <= c.n
Trim(c) == [n |-> c.n, names |-> c.names, sizes |-> SubSeq(c.sizes, 1, c.n), order |-> c.order, format |-> c.format]
VARIABLE done
Init == done = FALSE
Next == ~done /\ done' = TRUE /\ ndJsonSerialize(IOEnv.OUT, SetToSeq({Trim(c) : c \in {x \in Cases : Valid(x)}}))
Spec == Init /\ [][Next]_done
=============================================================================
