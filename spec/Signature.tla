------------------------------ MODULE Signature ------------------------------
(***************************************************************************)
(* C02: signature verification as a small state machine.                   *)
(*   Begin(pkg)      a verification call starts on a package whose         *)
(*                   signature header has a given shape                    *)
(*   Consult(s, x)   the verifier is asked about signature s over data x   *)
(*                   and answers accept / reject                           *)
(*   Return(ok|err)  the call returns                                      *)
(* Cryptography is an oracle (the verifier's verdicts); data are tokens    *)
(* (SHA-256 of exactly the bytes handed to the verifier).                  *)
(* Return(ok) is enabled only if every recorded digest matches, at least   *)
(* one signature was consulted, every consulted signature was accepted,    *)
(* and each was presented with the bytes it covers: the main header for    *)
(* OPENPGP / RSA / DSA entries, header ++ payload for the legacy PGP tag.  *)
(* Return(err) is always enabled: the property is one-directional.         *)
(***************************************************************************)
EXTENDS Naturals, Sequences

VARIABLES phase,       \* "idle" | "verifying"
          pkg,         \* [digests_ok, hdr_tok, hdrpayload_tok] of the call in progress
          consulted    \* sequence of [tag, data, verdict]
sigvars == <<phase, pkg, consulted>>

Covers(tag, p) == IF tag = "PGP" THEN p.hdrpayload_tok ELSE p.hdr_tok
KnownTags == {"OPENPGP", "RSA", "DSA", "PGP"}

SigInit == phase = "idle" /\ pkg = [digests_ok |-> FALSE, hdr_tok |-> "", hdrpayload_tok |-> ""] /\ consulted = <<>>

Begin(p) == /\ phase' = "verifying" /\ pkg' = p /\ consulted' = <<>>

Consult(tag, data, verdict) ==
    /\ phase = "verifying"
    /\ consulted' = Append(consulted, [tag |-> tag, data |-> data, verdict |-> verdict])
    /\ UNCHANGED <<phase, pkg>>

OkAllowed ==
    /\ pkg.digests_ok
    /\ consulted # <<>>
    /\ \A i \in 1..Len(consulted) :
          /\ consulted[i].verdict = "accept"
          /\ consulted[i].tag \in KnownTags
          /\ consulted[i].data = Covers(consulted[i].tag, pkg)

ReturnOk  == phase = "verifying" /\ OkAllowed /\ phase' = "idle" /\ UNCHANGED <<pkg, consulted>>
ReturnErr == phase = "verifying" /\ phase' = "idle" /\ UNCHANGED <<pkg, consulted>>

\* the safety property in terms of the state machine: a success is never "free"
NoFreeSuccess(lastReturn) == lastReturn = "ok" => OkAllowed
=============================================================================
