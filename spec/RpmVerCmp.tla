----------------------------- MODULE RpmVerCmp -----------------------------
(***************************************************************************)
(* rpm's version comparison (lib/rpmvercmp.c) over strings represented as  *)
(* sequences of code points.  Transcribed from the reference algorithm,    *)
(* not from the Rust code under test.                                      *)
(*                                                                         *)
(*  - `Step` is one iteration of rpmvercmp's main loop on the pair of      *)
(*    remaining suffixes (small-step form; MC_RpmVerCmp runs it as a       *)
(*    behaviour and checks termination/result against the big-step form).  *)
(*  - `KeyCmp` is a second, structurally different definition: tokenise    *)
(*    and compare token lists lexicographically.  It is a total preorder   *)
(*    by construction; `Agree` (checked exhaustively on a bounded domain)  *)
(*    transfers reflexivity / antisymmetry / transitivity to RpmVerCmp.    *)
(*                                                                         *)
(* Code points >= 128 stand for the bytes of a multi-byte UTF-8 sequence:  *)
(* every such byte is >= 0x80, hence a separator for rpm, and a run of     *)
(* separators is equivalent to a single one.                               *)
(***************************************************************************)
EXTENDS Naturals, Integers, Sequences

Tilde == 126
Caret == 94
IsDigit(c) == c >= 48 /\ c <= 57
IsAlpha(c) == (c >= 65 /\ c <= 90) \/ (c >= 97 /\ c <= 122)
IsAlnum(c) == IsDigit(c) \/ IsAlpha(c)
IsSep(c)   == ~IsAlnum(c) /\ c # Tilde /\ c # Caret

Drop(s, i) == SubSeq(s, i, Len(s))            \* suffix starting at index i

RECURSIVE SepEnd(_, _)     \* first index >= i that is not a separator
SepEnd(s, i) == IF i <= Len(s) /\ IsSep(s[i]) THEN SepEnd(s, i + 1) ELSE i
RECURSIVE DigitEnd(_, _)
DigitEnd(s, i) == IF i <= Len(s) /\ IsDigit(s[i]) THEN DigitEnd(s, i + 1) ELSE i
RECURSIVE AlphaEnd(_, _)
AlphaEnd(s, i) == IF i <= Len(s) /\ IsAlpha(s[i]) THEN AlphaEnd(s, i + 1) ELSE i
RECURSIVE ZeroEnd(_, _)
ZeroEnd(s, i) == IF i <= Len(s) /\ s[i] = 48 THEN ZeroEnd(s, i + 1) ELSE i

StripSep(s)   == Drop(s, SepEnd(s, 1))
StripZeros(s) == Drop(s, ZeroEnd(s, 1))

\* C strcmp on sequences of code points: -1 / 0 / 1
RECURSIVE StrCmp(_, _)
StrCmp(a, b) ==
    IF a = <<>> /\ b = <<>> THEN 0
    ELSE IF a = <<>> THEN -1
    ELSE IF b = <<>> THEN 1
    ELSE IF a[1] < b[1] THEN -1
    ELSE IF a[1] > b[1] THEN 1
    ELSE StrCmp(Tail(a), Tail(b))

Running == 2
St(a, b, r) == [one |-> a, two |-> b, res |-> r]
Fin(r)      == St(<<>>, <<>>, r)

(* One iteration of the main loop: while either suffix is non-empty *)
Step(st) ==
    LET a == StripSep(st.one)
        b == StripSep(st.two)
        aT == a # <<>> /\ a[1] = Tilde
        bT == b # <<>> /\ b[1] = Tilde
        aC == a # <<>> /\ a[1] = Caret
        bC == b # <<>> /\ b[1] = Caret
    IN
    IF aT \/ bT THEN
        IF ~aT THEN Fin(1) ELSE IF ~bT THEN Fin(-1) ELSE St(Tail(a), Tail(b), Running)
    ELSE IF aC \/ bC THEN
        IF a = <<>> THEN Fin(-1)
        ELSE IF b = <<>> THEN Fin(1)
        ELSE IF ~aC THEN Fin(1)
        ELSE IF ~bC THEN Fin(-1)
        ELSE St(Tail(a), Tail(b), Running)
    ELSE IF a = <<>> \/ b = <<>> THEN
        \* loop exit: "whichever version still has characters left over wins"
        IF a = <<>> /\ b = <<>> THEN Fin(0) ELSE IF a # <<>> THEN Fin(1) ELSE Fin(-1)
    ELSE IF IsDigit(a[1]) THEN
        LET ea == DigitEnd(a, 1)
            eb == DigitEnd(b, 1)
        IN IF eb = 1 THEN Fin(1)            \* numeric segment is newer than alpha
           ELSE LET sa == StripZeros(SubSeq(a, 1, ea - 1))
                    sb == StripZeros(SubSeq(b, 1, eb - 1))
                IN IF Len(sa) > Len(sb) THEN Fin(1)
                   ELSE IF Len(sb) > Len(sa) THEN Fin(-1)
                   ELSE LET c == StrCmp(sa, sb)
                        IN IF c # 0 THEN Fin(c) ELSE St(Drop(a, ea), Drop(b, eb), Running)
    ELSE
        LET ea == AlphaEnd(a, 1)
            eb == AlphaEnd(b, 1)
        IN IF eb = 1 THEN Fin(-1)
           ELSE LET c == StrCmp(SubSeq(a, 1, ea - 1), SubSeq(b, 1, eb - 1))
                IN IF c # 0 THEN Fin(c) ELSE St(Drop(a, ea), Drop(b, eb), Running)

RECURSIVE Run(_)
Run(st) == IF st.res # Running THEN st.res ELSE Run(Step(st))

RpmVerCmp(a, b) == IF a = b THEN 0 ELSE Run(St(a, b, Running))

---------------------------------------------------------------------------
(* Second definition: token keys.  ranks: ~ 0 < END 1 < ^ 2 < alpha 3 < numeric 4 *)
RECURSIVE Tokens(_)
Tokens(s0) ==
    LET s == StripSep(s0) IN
    IF s = <<>> THEN << <<1, <<>> >> >>
    ELSE IF s[1] = Tilde THEN << <<0, <<>> >> >> \o Tokens(Tail(s))
    ELSE IF s[1] = Caret THEN << <<2, <<>> >> >> \o Tokens(Tail(s))
    ELSE IF IsDigit(s[1]) THEN
        LET e == DigitEnd(s, 1) IN << <<4, StripZeros(SubSeq(s, 1, e - 1))>> >> \o Tokens(Drop(s, e))
    ELSE
        LET e == AlphaEnd(s, 1) IN << <<3, SubSeq(s, 1, e - 1)>> >> \o Tokens(Drop(s, e))

TokCmp(x, y) ==
    IF x[1] < y[1] THEN -1 ELSE IF x[1] > y[1] THEN 1
    ELSE IF x[1] = 4 THEN
        (IF Len(x[2]) < Len(y[2]) THEN -1 ELSE IF Len(x[2]) > Len(y[2]) THEN 1 ELSE StrCmp(x[2], y[2]))
    ELSE IF x[1] = 3 THEN StrCmp(x[2], y[2])
    ELSE 0

RECURSIVE LexTok(_, _)
LexTok(p, q) ==
    IF p = <<>> /\ q = <<>> THEN 0
    ELSE IF p = <<>> THEN -1
    ELSE IF q = <<>> THEN 1
    ELSE LET c == TokCmp(p[1], q[1]) IN IF c # 0 THEN c ELSE LexTok(Tail(p), Tail(q))

KeyCmp(a, b) == LexTok(Tokens(a), Tokens(b))

---------------------------------------------------------------------------
(* EVR / NEVRA ordering built on the string comparison (C13) *)
EpochOr0(e) == IF e = <<>> THEN <<48>> ELSE e

EvrCmp(x, y) ==       \* x, y : [e, v, r] of code-point sequences
    LET c1 == RpmVerCmp(EpochOr0(x.e), EpochOr0(y.e)) IN
    IF c1 # 0 THEN c1
    ELSE LET c2 == RpmVerCmp(x.v, y.v) IN
         IF c2 # 0 THEN c2 ELSE RpmVerCmp(x.r, y.r)

EvrEq(x, y) ==        \* the library's notion of equal EVRs: epoch "" == "0", rest identical
    /\ EpochOr0(x.e) = EpochOr0(y.e)
    /\ x.v = y.v /\ x.r = y.r

NevraCmp(x, y) ==     \* x, y : [n, e, v, r, a]
    LET c1 == RpmVerCmp(x.n, y.n) IN
    IF c1 # 0 THEN c1
    ELSE LET c2 == EvrCmp(x, y) IN
         IF c2 # 0 THEN c2 ELSE RpmVerCmp(x.a, y.a)

---------------------------------------------------------------------------
(* Canonical enumeration of all strings of length <= maxLen over an        *)
(* alphabet (a sequence of code points): index 0 is the empty string,      *)
(* then length 1 in alphabet order, length 2, ...  Shared with the harness *)
RECURSIVE Pow(_, _)
Pow(k, n) == IF n = 0 THEN 1 ELSE k * Pow(k, n - 1)
RECURSIVE Offset(_, _)
Offset(k, len) == IF len = 0 THEN 0 ELSE Offset(k, len - 1) + Pow(k, len - 1)
DomSize(k, maxLen) == Offset(k, maxLen + 1)
RECURSIVE LenOf(_, _, _)
LenOf(k, idx, len) == IF idx < Offset(k, len + 1) THEN len ELSE LenOf(k, idx, len + 1)
RECURSIVE Digits(_, _, _)
Digits(k, v, n) == IF n = 0 THEN <<>> ELSE Append(Digits(k, v \div k, n - 1), v % k)
NthStr(alpha, idx) ==
    LET k == Len(alpha)
        n == LenOf(k, idx, 0)
        d == Digits(k, idx - Offset(k, n), n)
    IN [i \in 1..n |-> alpha[d[i] + 1]]
=============================================================================
