------------------------------ MODULE Timestamp ------------------------------
(* C20: conversion of an instant to the 32-bit package timestamp.           *)
(* An instant is floor-seconds since the epoch plus nanoseconds:            *)
(*   t = secs + nanos / 10^9,  0 <= nanos < 10^9,  secs any integer.        *)
(* secs is carried as a sign and a vector of base-B digits (most            *)
(* significant first), because TLC integers are 32-bit: B = 65536 in the    *)
(* trace specification, B = 4 in the exhaustive scaled-down model.          *)
EXTENDS Naturals, Integers, Sequences

RECURSIVE AllZero(_)
AllZero(d) == d = <<>> \/ (d[1] = 0 /\ AllZero(Tail(d)))

\* [neg |-> BOOLEAN, d |-> digits of |secs|]; secs < 0 iff neg (neg implies d not all zero)
\* The package timestamp has K digits (K = 2 for base 65536: 32 bits).
High(d, K) == SubSeq(d, 1, Len(d) - K)
Low(d, K)  == SubSeq(d, Len(d) - K + 1, Len(d))

Convert(i, K) ==
    IF i.neg THEN [kind |-> "Underflow", v |-> <<>>]
    ELSE IF ~AllZero(High(i.d, K)) THEN [kind |-> "Overflow", v |-> <<>>]
    ELSE [kind |-> "Ok", v |-> Low(i.d, K)]

\* order on digit vectors of equal length
RECURSIVE DLeq(_, _)
DLeq(a, b) == a = <<>> \/ a[1] < b[1] \/ (a[1] = b[1] /\ DLeq(Tail(a), Tail(b)))

\* order on instants [neg, d, nanos]
ILeq(x, y) ==
    IF x.neg /\ ~y.neg THEN TRUE
    ELSE IF ~x.neg /\ y.neg THEN FALSE
    ELSE IF ~x.neg THEN (x.d # y.d /\ DLeq(x.d, y.d)) \/ (x.d = y.d /\ x.nanos <= y.nanos)
    ELSE (x.d # y.d /\ DLeq(y.d, x.d)) \/ (x.d = y.d /\ x.nanos <= y.nanos)

Rank(k) == IF k = "Underflow" THEN 0 ELSE IF k = "Ok" THEN 1 ELSE 2
\* outputs of two conversions are ordered consistently with the instants
OutLeq(a, b) == Rank(a.kind) < Rank(b.kind) \/ (a.kind = b.kind /\ (a.kind # "Ok" \/ DLeq(a.v, b.v)))
=============================================================================
