------------------------------ MODULE Trace_C04 ------------------------------
(***************************************************************************)
(* C04: for every input, every read-side operation returns a value or an   *)
(* error.  One Outcome event per input: how the child process that worked  *)
(* on it ended, the result of every operation and the largest allocation   *)
(* peak of any single operation.  The specification has no action for a    *)
(* panic, an abort or a timeout: such an event is not a behaviour.         *)
(* Memory: peak <= K0 + K1 * |input| with K0 = 1 MiB, K1 = 64.              *)
(***************************************************************************)
EXTENDS Naturals, Sequences, TraceBase
VARIABLES l, rej, nrej
vars == <<l, rej, nrej>>
K0 == 1048576
K1 == 64
Returned(r) == r.exit = "normal" /\ \A i \in 1..Len(r.results) : r.results[i] \in {"ok", "err"}
Proportionate(r) == r.worst_peak <= K0 + K1 * r.input_len
Whys(r) == IF r.event # "Outcome" THEN <<r.event>>
           ELSE (IF r.exit # "normal" THEN <<r.exit>> ELSE <<>>)
                \o (IF r.exit = "normal" /\ ~Returned(r) THEN <<"panic">> ELSE <<>>)
                \o (IF Proportionate(r) THEN <<>> ELSE <<"allocation out of proportion">>)
Init == l = 1 /\ rej = <<>> /\ nrej = 0
Next == /\ l <= N /\ l' = l + 1
        /\ LET w == Whys(Rec[l]) IN
           IF w = <<>> THEN UNCHANGED <<rej, nrej>>
           ELSE LET y == NoteReject(rej, nrej, l, w) IN rej' = y.rej /\ nrej' = y.nrej
Spec == Init /\ [][Next]_vars
Finished == (l = N + 1) => WriteVerdict(rej, nrej)
=============================================================================
