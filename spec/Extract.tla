------------------------------- MODULE Extract -------------------------------
(***************************************************************************)
(* C12: extraction into a directory, over a small POSIX-like file-system   *)
(* model.  A path is a sequence of components from the root of a jail;     *)
(* ".." is the parent component.  Symbolic links are followed component by *)
(* component, as the operating system does (fuel-bounded).                 *)
(*   fs      set of nodes [path, kind in dir/file/link, data, target]      *)
(*   Root    the extraction target; everything not below it is "outside"   *)
(* Two extractor designs are stated: "naive" joins the package's path onto *)
(* the target and creates through whatever is there; "safe" admits normal  *)
(* components only and never goes through a symbolic link.  The property   *)
(* is Contained: nothing outside the target is created, modified, removed. *)
(***************************************************************************)
EXTENDS Naturals, Sequences, FiniteSets

Root == <<"t">>
Inside(p) == Len(p) >= Len(Root) /\ SubSeq(p, 1, Len(Root)) = Root
Parent(p) == IF p = <<>> THEN <<>> ELSE SubSeq(p, 1, Len(p) - 1)

Exists(f, p) == \E n \in f : n.path = p
NodeAt(f, p) == IF Exists(f, p) THEN CHOOSE n \in f : n.path = p ELSE [path |-> p, kind |-> "none"]
Dir(p)  == [path |-> p, kind |-> "dir", data |-> "", target |-> [abs |-> FALSE, comps |-> <<>>]]
File(p, d) == [path |-> p, kind |-> "file", data |-> d, target |-> [abs |-> FALSE, comps |-> <<>>]]
Link(p, t) == [path |-> p, kind |-> "link", data |-> "", target |-> t]

\* resolve `comps` starting in directory `cur`; a link in the last component is followed iff followLast
RECURSIVE Res(_, _, _, _, _)
Res(f, cur, comps, followLast, fuel) ==
    IF fuel = 0 THEN <<"<loop>">>
    ELSE IF comps = <<>> THEN cur
    ELSE LET c == Head(comps)  rest == Tail(comps) IN
         IF c = ".." THEN Res(f, Parent(cur), rest, followLast, fuel - 1)
         ELSE IF c = "." THEN Res(f, cur, rest, followLast, fuel - 1)
         ELSE LET p == Append(cur, c)  n == NodeAt(f, p) IN
              IF n.kind = "link" /\ (rest # <<>> \/ followLast)
              THEN Res(f, IF n.target.abs THEN <<>> ELSE cur, n.target.comps \o rest, followLast, fuel - 1)
              ELSE Res(f, p, rest, followLast, fuel - 1)
Resolve(f, p, followLast) == Res(f, <<>>, p, followLast, 12)

Put(f, n) == {m \in f : m.path # n.path} \cup {n}

\* mkdir -p along p (lexical components), creating missing directories where resolution lands
RECURSIVE MkdirP(_, _, _)
MkdirP(f, p, k) ==
    IF k > Len(p) THEN [ok |-> TRUE, fs |-> f]
    ELSE LET r == Resolve(f, SubSeq(p, 1, k), TRUE)  n == NodeAt(f, r) IN
         IF n.kind = "none" THEN (IF NodeAt(f, Parent(r)).kind = "dir" \/ r = <<>> THEN MkdirP(Put(f, Dir(r)), p, k + 1)
                                  ELSE [ok |-> FALSE, fs |-> f])
         ELSE IF n.kind = "dir" THEN MkdirP(f, p, k + 1)
         ELSE [ok |-> FALSE, fs |-> f]
\* create / truncate a regular file (follows a link in the last component, like open(O_CREAT))
WriteFile(f, p, d) ==
    LET r == Resolve(f, p, TRUE) IN
    IF NodeAt(f, Parent(r)).kind = "dir" /\ NodeAt(f, r).kind \in {"none", "file"}
    THEN [ok |-> TRUE, fs |-> Put(f, File(r, d))] ELSE [ok |-> FALSE, fs |-> f]
\* replace whatever non-directory is at p by a symbolic link (last component not followed)
MakeLink(f, p, t) ==
    LET r == Resolve(f, p, FALSE) IN
    IF NodeAt(f, Parent(r)).kind = "dir" /\ NodeAt(f, r).kind # "dir"
    THEN [ok |-> TRUE, fs |-> Put(f, Link(r, t))] ELSE [ok |-> FALSE, fs |-> f]

---------------------------------------------------------------------------
(* package entries: [comps, kind in file/dir/link/other, data, target] ;    *)
(* comps is the path as stored (relative to "/"), possibly containing ".."  *)
HasDotDot(e) == \E i \in 1..Len(e.comps) : e.comps[i] = ".."
NoDots(cs) == SelectSeq(cs, LAMBDA c : c # ".")
\* some existing proper ancestor of Root ++ comps (or the path itself, for directories) is a link
ThroughLink(f, e) ==
    LET cs == NoDots(e.comps) IN
    \E k \in 1..Len(cs) :
        /\ (k < Len(cs) \/ e.kind = "dir")
        /\ NodeAt(f, Root \o SubSeq(cs, 1, k)).kind = "link"

Err(f) == [ok |-> FALSE, fs |-> f]
\* only the immediate parent (and, for directories, the path itself) is looked at
ParentLink(f, e) ==
    LET cs == NoDots(e.comps) IN
    \/ (Len(cs) >= 2 /\ NodeAt(f, Root \o SubSeq(cs, 1, Len(cs) - 1)).kind = "link")
    \/ (e.kind = "dir" /\ cs # <<>> /\ NodeAt(f, Root \o cs).kind = "link")
\* Designs: "safe" (the property holds); and four ways to miss it, each of which MC_Extract must refute:
\*   "naive"       joins the stored path onto the target and creates through whatever is there
\*   "parentonly"  refuses ".." but checks only the immediate parent for symbolic links
\*   "mkdirfirst"  creates the parent directories of the stored path first and refuses afterwards
\*   "nolinkcheck" like "safe", but entries that are symbolic links themselves are not checked for links above them
\*                 ("unlink and symlink never follow links" - true of the last component only)
Step(design, f, e) ==
    IF e.kind = "other" THEN Err(f)
    ELSE IF design = "mkdirfirst" /\ HasDotDot(e) THEN Err(MkdirP(f, Parent(Root \o e.comps), 1).fs)
    ELSE IF design \in {"safe", "mkdirfirst"} /\ (HasDotDot(e) \/ ThroughLink(f, e)) THEN Err(f)
    ELSE IF design = "nolinkcheck" /\ (HasDotDot(e) \/ (e.kind # "link" /\ ThroughLink(f, e))) THEN Err(f)
    ELSE IF design = "parentonly" /\ (HasDotDot(e) \/ ParentLink(f, e)) THEN Err(f)
    ELSE LET p == Root \o (IF design # "naive" THEN NoDots(e.comps) ELSE e.comps)
             pre == MkdirP(f, Parent(p), 1)          \* parent directories are created first
         IN IF ~pre.ok THEN pre
            ELSE IF e.kind = "dir" THEN MkdirP(pre.fs, p, 1)
            ELSE IF e.kind = "link" THEN MakeLink(pre.fs, p, e.target)
            ELSE IF design # "naive" /\ NodeAt(pre.fs, p).kind = "link"
                 THEN WriteFile({m \in pre.fs : m.path # p}, p, e.data)      \* replace the link, do not write through it
                 ELSE WriteFile(pre.fs, p, e.data)

RECURSIVE Run(_, _, _)
Run(design, f, pkg) ==
    IF pkg = <<>> THEN [ok |-> TRUE, fs |-> f]
    ELSE LET s == Step(design, f, Head(pkg)) IN
         IF ~s.ok THEN s ELSE Run(design, s.fs, Tail(pkg))

Outside(f) == {n \in f : ~Inside(n.path)}
Contained(f0, f) == Outside(f) = Outside(f0)

\* the jail before extraction: the target directory (just created), a victim and a directory outside of it
Fs0 == {Dir(<<>>), Dir(Root), Dir(<<"out">>), Dir(<<"out", "sub">>), File(<<"out", "victim">>, "precious")}
=============================================================================
