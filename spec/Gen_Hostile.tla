----------------------------- MODULE Gen_Hostile -----------------------------
(***************************************************************************)
(* GEN for C04: boundary-value products over the header parser's inputs,   *)
(* one family per error transition of the parser state machine             *)
(*   intro      nindex / dsize at 0, 1, len-1, len, len+1, 2^28, 2^28+1,   *)
(*              2^31-1, 2^32-1 (written -1: TLC integers are 32-bit)        *)
(*   entries    type 0..10, offset at -1 / 0 / len-1 / len / len+1 /       *)
(*              i32 extremes, count at 0 / 1 / len / len+1 / 2^28 / 2^31-1 *)
(*              / 2^32-1, stores with and without terminators              *)
(* `predict` is what a maximally lenient structural parser would do (ok /  *)
(* err and which error transition); disagreement of the library with it is *)
(* informational only - the obligation is "returns", never "accepts".      *)
(***************************************************************************)
EXTENDS Naturals, Integers, Sequences, FiniteSets, TLC, Json, IOUtils, SequencesExt
CONSTANT Thorough

Stores == { <<65, 0, 66, 0>>, <<65, 66, 67, 68>>, <<0, 0, 0, 0, 0, 0, 0, 0>>, <<>> }
Big == {268435456, 268435457, 2147483647, -1}
Types == 0..10
Offs(len) == {-1, 0, len - 1, len, len + 1, 2147483647, -2147483647 - 1}
Cnts(len) == {0, 1, len, len + 1} \cup Big

Width(t) == IF t = 3 THEN 2 ELSE IF t = 4 THEN 4 ELSE IF t = 5 THEN 8 ELSE 1
\* number of NUL bytes in s from (1-based) position p on
Nuls(s, p) == Cardinality({i \in p..Len(s) : s[i] = 0})
PredictEntry(e, s) ==
    LET len == Len(s)  t == e[2]  o == e[3]  c == e[4] IN
    IF t > 9 THEN "IllegalType"
    ELSE IF o < 0 THEN "NegativeOffset"
    ELSE IF o > len THEN "OffsetOutOfRange"
    ELSE IF t = 0 THEN "ok"
    ELSE IF t \in {6} THEN "ok"                                  \* a string may run to the end of the store
    ELSE IF t \in {8, 9} THEN (IF c < 0 \/ c > Nuls(s, o + 1) THEN "UnterminatedString" ELSE "ok")
    ELSE IF c < 0 \/ c > len \/ o + Width(t) * c > len THEN "CountExceedsStore" ELSE "ok"   \* (c > len first: no 32-bit overflow)
Predict(h) ==
    LET n == IF "nindex" \in DOMAIN h THEN h.nindex ELSE Len(h.entries)
        d == IF "dsize" \in DOMAIN h THEN h.dsize ELSE Len(h.store) IN
    IF n # Len(h.entries) \/ d # Len(h.store) THEN "ShortIndexOrStore"
    ELSE IF \E i \in 1..Len(h.entries) : PredictEntry(h.entries[i], h.store) # "ok"
         THEN PredictEntry(h.entries[CHOOSE i \in 1..Len(h.entries) : PredictEntry(h.entries[i], h.store) # "ok"], h.store)
    ELSE "ok"

NomSig == [entries |-> <<>>, store |-> <<>>]
NomHdr == [entries |-> << <<1000, 6, 0, 1>> >>, store |-> <<110, 0>>]
\* H1: intro fields that do not match what follows
H1 == { [fam |-> "H1", where |-> w, hdr |-> [entries |-> << <<1000, 0, 0, 0>> >>, store |-> <<1, 2, 3>>, nindex |-> n, dsize |-> d]]
          : w \in {"sig", "hdr"}, n \in {0, 1, 2, 3} \cup Big, d \in {0, 1, 2, 3, 4} \cup Big }
\* H2: one entry with boundary fields against each store
H2 == UNION { { [fam |-> "H2", where |-> w, hdr |-> [entries |-> << <<t0, ty, o, c>> >>, store |-> s]]
                  : w \in {"hdr"} \cup (IF Thorough THEN {"sig"} ELSE {}), t0 \in {1000, 63}, ty \in Types,
                    o \in Offs(Len(s)), c \in Cnts(Len(s)) } : s \in Stores }
\* H3: the tags the accessors and verifiers read, wrongly typed / sized, so that read-side operations run on odd data
ReadTags == {1004, 1016, 5092, 5093, 1117, 1116, 1118, 1030, 1028, 5008, 1035, 1037, 1036, 1039, 1040, 1034, 5011, 1125, 1047, 1112}
H3 == { [fam |-> "H3", where |-> "hdr", hdr |-> [entries |-> << <<t0, ty, o, c>> >>, store |-> <<65, 0, 66, 0, 0, 0, 0, 9>>]]
          : t0 \in ReadTags, ty \in {0, 3, 4, 5, 6, 7, 8, 9}, o \in {0, 4}, c \in {0, 1, 2, 8} }
SigTags == {62, 267, 268, 269, 273, 278, 1002, 1004, 274}
H4 == { [fam |-> "H4", where |-> "sig", hdr |-> [entries |-> << <<t0, ty, o, c>> >>, store |-> <<65, 0, 66, 0, 0, 0, 0, 9>>]]
          : t0 \in SigTags, ty \in {0, 4, 6, 7, 8, 9}, o \in {0, 4, 7, 8}, c \in {0, 1, 2, 4, 8} }

\* H5: parallel per-file arrays of different lengths (typed, otherwise well-formed headers): two files, one of
\* the per-file tags with 0, 1 or 3 items, incl. the optional capability and (signature header) IMA arrays
Str(n) == [i \in 1..n |-> <<102, 48 + i>>]
Num(n) == [i \in 1..n |-> <<0, 33188>>]
PerFile == << <<1117, 8>>, <<1116, 4>>, <<1030, 3>>, <<1039, 8>>, <<1040, 8>>, <<1035, 8>>, <<1034, 4>>, <<1028, 4>>, <<1037, 4>>, <<1036, 8>>, <<5010, 8>> >>
Typed(short, n) == [k \in 1..Len(PerFile) |->
    [tag |-> PerFile[k][1], type |-> PerFile[k][2],
     v |-> LET m == IF PerFile[k][1] = short THEN n ELSE 2 IN
           IF PerFile[k][2] = 8 THEN (IF PerFile[k][1] \in {1035, 1036, 5010} THEN [i \in 1..m |-> <<>>] ELSE Str(m))
           ELSE IF PerFile[k][1] = 1116 THEN [i \in 1..m |-> <<0, 0>>]
           ELSE IF PerFile[k][2] = 3 THEN [i \in 1..m |-> <<33188>>] ELSE Num(m)]]
H5 == { [fam |-> "H5", predict |-> "ok", payload |-> 0,
         sig |-> [typed |-> IF sg = 0 THEN <<>> ELSE << [tag |-> 274, type |-> 8, v |-> Str(sg)] >>],
         hdr |-> [typed |-> Typed(t, n) \o << [tag |-> 1118, type |-> 8, v |-> << <<47, 111, 47>> >>] >>]]
          : t \in {PerFile[k][1] : k \in 1..Len(PerFile)} \cup {0}, n \in {0, 1, 3}, sg \in {0, 1, 3} }

ToCase(x) == [fam |-> x.fam, predict |-> Predict(x.hdr),
              sig |-> IF x.where = "sig" THEN x.hdr ELSE NomSig,
              hdr |-> IF x.where = "hdr" THEN x.hdr ELSE NomHdr, payload |-> 3]
VARIABLE done
Init == done = FALSE
Next == ~done /\ done' = TRUE /\ ndJsonSerialize(IOEnv.OUT, SetToSeq({ToCase(x) : x \in H1}) \o SetToSeq({ToCase(x) : x \in H2})
                                                             \o SetToSeq({ToCase(x) : x \in H3}) \o SetToSeq({ToCase(x) : x \in H4}) \o SetToSeq(H5))
Spec == Init /\ [][Next]_done
=============================================================================
