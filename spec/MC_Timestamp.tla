---------------------------- MODULE MC_Timestamp ----------------------------
(* Scaled-down exhaustive model: base 4, 3 digits, a 2-digit (0..15) target. *)
EXTENDS Timestamp, TLC
B == 4
Val(d) == d[1] * 16 + d[2] * 4 + d[3]
Inst == { i \in [neg : BOOLEAN, d : [1..3 -> 0..(B-1)], nanos : {0, 1}] : i.neg => Val(i.d) > 0 }
Secs(i) == IF i.neg THEN -Val(i.d) ELSE Val(i.d)
VARIABLES x, y
Init == x \in Inst /\ y \in Inst
Next == UNCHANGED <<x, y>>
Spec == Init /\ [][Next]_<<x, y>>
\* the digit-level definition equals the integer-level statement of the property
Exact == LET c == Convert(x, 2) IN
         /\ (Secs(x) < 0) = (c.kind = "Underflow")
         /\ (Secs(x) >= 16) = (c.kind = "Overflow")
         /\ (Secs(x) >= 0 /\ Secs(x) < 16) => (c.kind = "Ok" /\ c.v[1] * 4 + c.v[2] = Secs(x))
OrderOk == (Secs(x) < Secs(y) \/ (Secs(x) = Secs(y) /\ x.nanos <= y.nanos)) = ILeq(x, y)
Monotone == ILeq(x, y) => OutLeq(Convert(x, 2), Convert(y, 2))
=============================================================================
