--------------------------- MODULE MC_BuilderArgs ---------------------------
(* Sanity of MustErr on the complete domain over {/ . a b} up to length 5: *)
(* the named hostile destinations are in it, ordinary ones are not, and it *)
(* is closed under appending "/" or "/." (which never adds a file name).   *)
EXTENDS BuilderArgs, TLC
LOCAL INSTANCE RpmVerCmp
Sigma == <<47, 46, 97, 98>>
VARIABLE i
Init == i \in 0 .. (DomSize(4, 5) - 1)
Next == UNCHANGED i
Spec == Init /\ [][Next]_i
S == NthStr(Sigma, i)
Named == /\ MustErr(<<47>>) /\ MustErr(<<46, 47>>) /\ MustErr(<<47, 46>>) /\ MustErr(<<46, 47, 46>>)
         /\ MustErr(<<47, 97, 47, 46, 46>>) /\ MustErr(<<46, 47, 46, 46>>) /\ MustErr(<<97>>) /\ MustErr(<<>>)
         /\ ~MustErr(<<47, 97>>) /\ ~MustErr(<<46, 47, 97>>) /\ ~MustErr(<<47, 97, 47, 98>>)
         /\ ~MustErr(<<47, 97, 47, 46>>) /\ ~MustErr(<<47, 46, 46, 47, 97>>) /\ ~MustErr(<<47, 46, 46, 46>>)
Closed == /\ (StartsOk(S) => (NoFinalName(S) = NoFinalName(S \o <<47>>)))
          /\ (StartsOk(S) => (NoFinalName(S) = NoFinalName(S \o <<47, 46>>)))
          /\ (MustErr(S) /\ StartsOk(S) => MustErr(S \o <<47, 46, 46>>))
=============================================================================
