SPECIFICATION Spec
CONSTANTS
  Design = "naive"
  MaxEntries = 2
INVARIANTS ContainedInv VictimIntact
CHECK_DEADLOCK FALSE
