------------------------------- MODULE MC_Cpio -------------------------------
(* The archive model on small archives built inside the model: an encoder   *)
(* (newc and stripped) followed by the parser gives back the entries, every *)
(* boundary is 4-aligned, and pairing by name / index finds the right file  *)
(* for every subset and order of archived files.                             *)
EXTENDS Cpio, FiniteSets, TLC
Hex(d) == IF d < 10 THEN 48 + d ELSE 87 + d
RECURSIVE HexStr(_, _)
HexStr(v, n) == IF n = 0 THEN <<>> ELSE HexStr(v \div 16, n - 1) \o <<Hex(v % 16)>>
Zeros(n) == [i \in 1..n |-> 0]
PadTo4(s) == s \o Zeros(Pad4(Len(s)) - Len(s))
Field0 == HexStr(0, 8)
Newc(name, mode, data) ==
    PadTo4(<<48, 55, 48, 55, 48, 49>> \o Field0 \o HexStr(mode, 8) \o Field0 \o Field0 \o HexStr(1, 8) \o Field0
           \o HexStr(Len(data), 8) \o Field0 \o Field0 \o Field0 \o Field0 \o HexStr(Len(name) + 1, 8) \o Field0
           \o name \o <<0>>) \o PadTo4(data)
Stripped(ix, data) == <<48, 55, 48, 55, 48, 88>> \o HexStr(ix, 8) \o <<0, 0>> \o PadTo4(data)
Names == << <<46, 47, 97>>, <<46, 47, 98, 98>>, <<46, 47, 99, 99, 99>> >>
Data(i, n) == [k \in 1..n |-> 64 + i]
VARIABLES s1, s2, s3, order, fmt
Perm(S) == {s \in [1..Cardinality(S) -> S] : \A i, j \in 1..Cardinality(S) : i # j => s[i] # s[j]}
Init == /\ s1 \in 0..4 /\ s2 \in {0, 3} /\ s3 \in {1, 2}
        /\ order \in UNION {Perm(S) : S \in SUBSET {1, 2, 3}} /\ fmt \in {"newc", "stripped"}
Next == UNCHANGED <<s1, s2, s3, order, fmt>>
Spec == Init /\ [][Next]_<<s1, s2, s3, order, fmt>>
Sz == <<s1, s2, s3>>
Files == [i \in 1..3 |-> [path |-> Tail(Names[i]), size |-> Sz[i], mode |-> 33188]]
RECURSIVE Enc(_)
Enc(o) == IF o = <<>> THEN Newc(S_TrailerName, 0, <<>>)
          ELSE (IF fmt = "newc" THEN Newc(Names[o[1]], 33188, Data(o[1], Sz[o[1]])) ELSE Stripped(o[1] - 1, Data(o[1], Sz[o[1]]))) \o Enc(Tail(o))
Archive == Enc(order)
P == Parse(Archive, Sz)
RoundTrip == /\ Len(P) = Len(order) + 1 /\ P[Len(P)].kind = "trailer"
             /\ \A i \in 1..Len(order) :
                  /\ P[i].kind = fmt /\ P[i].size = Sz[order[i]]
                  /\ SubSeq(Archive, P[i].data_at + 1, P[i].data_at + P[i].size) = Data(order[i], Sz[order[i]])
                  /\ P[i].hdr_at % 4 = 0 /\ P[i].data_at % 4 = 0
                  /\ FileOf(P[i], Files) = order[i]                      \* paired with the file it names
Aligned == Len(Archive) % 4 = 0
=============================================================================
