SPECIFICATION Spec
CONSTANTS
  Keys = {"rsa4096", "rsa3072p", "ed25519", "ecdsa"}
  MaxSteps = 6
INVARIANTS NoVerifyWhenTampered AtMostOneKey SigDirtyOnlySigned
PROPERTY PayloadStays DigestKept RebuiltOnly SigTamperLocal
CHECK_DEADLOCK FALSE
