----------------------------- MODULE MC_FileMode -----------------------------
EXTENDS FileMode, TLC
VARIABLE w
Init == w \in Word
Next == UNCHANGED w
Spec == Init /\ [][Next]_w
Algebra == Recombine(w) /\ PartsInMask(w) /\ Obs(w).raw = w
ClassExact == /\ (Class(w) = "dir") = (w \in 16384 .. 20479)
              /\ (Class(w) = "regular") = (w \in 32768 .. 36863)
              /\ (Class(w) = "symlink") = (w \in 40960 .. 45055)
CtorMasks == \A k \in {"dir", "regular", "symlink"} :
                /\ CtorObs(k, w).perms = w % 4096 /\ CtorObs(k, w).class = k
                /\ CtorObs(k, w).raw = CtorType(k) + (w % 4096)
I32 == /\ InRange(w) /\ WordOf(w) = w
       /\ (w <= 32768 /\ w >= 1 => InRange(-w) /\ WordOf(-w) = 65536 - w)
       /\ ~InRange(65536 + w) /\ ~InRange(-32769 - w)
=============================================================================
