------------------------------ MODULE Trace_C19 ------------------------------
EXTENDS FileCaps, Integers, TraceBase
LOCAL INSTANCE RpmVerCmp    \* for the canonical enumeration NthStr / DomSize only
VARIABLES l, rej, nrej
vars == <<l, rej, nrej>>

\* the 13-token alphabet of the quantifier: cap_chown CAP_KILL all cap_bogus , = + - e i p x ' '
Tok == << <<99,97,112,95,99,104,111,119,110>>, <<67,65,80,95,75,73,76,76>>, <<97,108,108>>,
          <<99,97,112,95,98,111,103,117,115>>, <<44>>, <<61>>, <<43>>, <<45>>, <<101>>, <<105>>,
          <<112>>, <<120>>, <<32>> >>
Idx == [i \in 1..13 |-> i]
TextOf(n) == LET ix == NthStr(Idx, n) IN Flatten([k \in 1..Len(ix) |-> Tok[ix[k]]])

\* r.acc[k]: 1 accepted by from_str, new and FileOptions::caps alike and Display = input,
\*           0 rejected by all three with an error, 2 anything else (disagreement, panic)
Agrees(v, a) == (v = "accept" /\ a = 1) \/ (v = "reject" /\ a = 0) \/ (v = "dontcare" /\ a \in {0, 1})

BlockOk(r) ==
    \A k \in 1..Len(r.acc) : Agrees(Verdict(TextOf(r.start + k - 1)), r.acc[k])

OneOk(r) == Agrees(Verdict(r.text), r.acc)

EventOk(r) ==
    CASE r.event = "CapsBlock" -> BlockOk(r)
      [] r.event = "Caps" -> OneOk(r)
      [] OTHER -> FALSE

Init == l = 1 /\ rej = <<>> /\ nrej = 0
Next == /\ l <= N /\ l' = l + 1
        /\ IF EventOk(Rec[l]) THEN UNCHANGED <<rej, nrej>>
           ELSE LET x == NoteReject(rej, nrej, l, Rec[l].event) IN rej' = x.rej /\ nrej' = x.nrej
Spec == Init /\ [][Next]_vars
Finished == (l = N + 1) => WriteVerdict(rej, nrej)
=============================================================================
