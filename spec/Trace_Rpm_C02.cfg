SPECIFICATION Spec
CONSTANTS
  Keys = {"rsa4096", "rsa3072p", "ed25519", "ecdsa"}
  Mode = "C02"
INVARIANT Finished
CHECK_DEADLOCK FALSE
