----------------------------- MODULE Determinism -----------------------------
(***************************************************************************)
(* C11: reproducible builds.  History variable emitted[c] remembers the    *)
(* bytes (as a digest token) the first observed run of configuration c     *)
(* produced; every later run - in the same process or another one - must   *)
(* produce the same token.  Every timestamp in a package built with a      *)
(* source date is at most the source date.                                 *)
(***************************************************************************)
EXTENDS Naturals, Sequences

VARIABLE emitted       \* function: configuration id -> "unset" or bytes token
Unset == "unset"

RECURSIVE DLeq(_, _)
DLeq(a, b) == a = <<>> \/ a[1] < b[1] \/ (a[1] = b[1] /\ DLeq(Tail(a), Tail(b)))

DetInit(Cfgs) == emitted = [c \in Cfgs |-> Unset]
ObserveRun(c, tok) == /\ emitted[c] \in {Unset, tok}
                      /\ emitted' = [emitted EXCEPT ![c] = tok]
Clamped(times, sourceDate) == \A i \in 1..Len(times) : DLeq(times[i], sourceDate)
=============================================================================
