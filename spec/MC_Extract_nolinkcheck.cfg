SPECIFICATION Spec
CONSTANTS
  Design = "nolinkcheck"
  MaxEntries = 2
INVARIANTS ContainedInv VictimIntact
CHECK_DEADLOCK FALSE
