--------------------------- MODULE MC_HeaderFormat ---------------------------
(* The loading rules and the layout on headers built inside the model.     *)
(*  - every well-typed header encodes to bytes that pass HdrChk and decode  *)
(*    back to itself (the specification's own round trip);                  *)
(*  - each of the malformations rpm's loader names turns HdrChk false, so   *)
(*    the rule set is not vacuous, and HdrChk implies the wider rule set    *)
(*    HdrChkLoose on everything reached, mutated or not;                    *)
(*  - a header with dribble entries passes HdrChkLoose only, and decodes to *)
(*    region entries followed by dribbles;                                  *)
(*  - whatever passes HdrChk after an arbitrary one-byte change decodes     *)
(*    without reading outside the store.                                    *)
EXTENDS HeaderEncode, FiniteSets, TLC
R == 63
Cands(tag) == {
    [tag |-> tag, type |-> TInt8,   items |-> << <<7>> >>],
    [tag |-> tag, type |-> TInt16,  items |-> << <<1, 2>> >>],
    [tag |-> tag, type |-> TInt16,  items |-> << <<1, 2>>, <<0, 0>> >>],
    [tag |-> tag, type |-> TInt32,  items |-> << <<0, 0, 1, 0>> >>],
    [tag |-> tag, type |-> TInt64,  items |-> << <<255, 0, 0, 0, 0, 0, 0, 9>> >>],
    [tag |-> tag, type |-> TString, items |-> << <<97, 98>> >>],
    [tag |-> tag, type |-> TString, items |-> << <<>> >>],
    [tag |-> tag, type |-> TStrArr, items |-> << <<97>>, <<>>, <<98, 99, 100>> >>],
    [tag |-> tag, type |-> TI18n,   items |-> << <<195, 169>> >>],
    [tag |-> tag, type |-> TBin,    items |-> << <<0>>, <<255>>, <<0>> >>],
    [tag |-> tag, type |-> TChar,   items |-> << <<120>> >>] }
Opt(tag) == {<<>>} \cup {<<c>> : c \in Cands(tag)}
CONSTANT Three
Headers == {a \o c \o d : a \in Opt(100), c \in Opt(1000), d \in IF Three THEN Opt(1004) ELSE {<<>>}}
Dribbles == {<<c>> : c \in {[tag |-> 5000, type |-> TInt32, items |-> << <<0, 0, 0, 5>> >>],
                            [tag |-> 200,  type |-> TString, items |-> << <<122>> >>]}}

Set32(b, at, v) == [i \in 1..Len(b) |-> IF i - 1 >= at /\ i - 1 <= at + 3 THEN Be32(v)[i - at] ELSE b[i]]
Poke(b, at, v)  == [b EXCEPT ![at + 1] = v]
Block(b, at)    == SubSeq(b, at + 1, at + 16)
SwapBlocks(b, p, q) == [i \in 1..Len(b) |-> IF i - 1 >= p /\ i - 1 < p + 16 THEN b[i - p + q]
                                            ELSE IF i - 1 >= q /\ i - 1 < q + 16 THEN b[i - q + p] ELSE b[i]]

VARIABLES es, b, phase
vars == <<es, b, phase>>
Init == /\ es \in Headers /\ b = Encode(R, es) /\ phase = "clean"

\* the malformations: every one of them must be refused
BrokenOf(bb) ==
    LET n0 == NIndex(bb, 0)
        dl0  == DSize(bb, 0)
        s00  == StoreAt(bb, 0)
        tp0  == s00 + dl0 - 16
        EP(k) == EntryPos(0, k)
        DL(k) == DataLen(bb, s00, tp0, Entry(bb, 0, k))
    IN
    {<<"magic", Poke(bb, 0, 0)>>, <<"nindex0", Set32(bb, 8, 0)>>, <<"nindex+1", Set32(bb, 8, n0 + 1)>>,
     <<"dsize+1", Set32(bb, 12, dl0 + 1) \o <<0>> >>, <<"dsize-1", Set32(bb, 12, dl0 - 1)>>,
     <<"truncated", SubSeq(bb, 1, Len(bb) - 1)>>,
     <<"region tag", Set32(bb, EP(1), R + 1)>>, <<"region type", Set32(bb, EP(1) + 4, TInt32)>>,
     <<"region offset", Set32(bb, EP(1) + 8, dl0 - 32)>>, <<"region count", Set32(bb, EP(1) + 12, 15)>>,
     <<"trailer tag", Set32(bb, tp0, R + 1)>>, <<"trailer type", Set32(bb, tp0 + 4, TInt32)>>,
     <<"trailer offset", Set32(bb, tp0 + 8, 0 - 16 * (n0 + 1))>>, <<"trailer positive", Set32(bb, tp0 + 8, 16 * n0)>>,
     <<"trailer count", Set32(bb, tp0 + 12, 17)>>}
    \cup UNION {
      {<<"count 0", Set32(bb, EP(k) + 12, 0)>>, <<"type 0", Set32(bb, EP(k) + 4, 0)>>, <<"type 10", Set32(bb, EP(k) + 4, 10)>>,
       <<"tag below 100", Set32(bb, EP(k), 99)>>, <<"negative offset", Set32(bb, EP(k) + 8, 0 - 1)>>,
       <<"offset at trailer", Set32(bb, EP(k) + 8, dl0 - 16)>>, <<"offset past store", Set32(bb, EP(k) + 8, dl0 + 8)>>,
       <<"count too big", Set32(bb, EP(k) + 12, Entry(bb, 0, k).count + dl0)>>}
      \cup (IF Align(Entry(bb, 0, k).type) > 1 THEN {<<"misaligned", Set32(bb, EP(k) + 8, Entry(bb, 0, k).offset + 1)>>} ELSE {})
      \cup (IF Entry(bb, 0, k).type = TString THEN {<<"string count 2", Set32(bb, EP(k) + 12, 2)>>} ELSE {})
      \* (when alignment padding follows, its zero byte ends the string instead and the header stays valid)
      \cup (IF IsStrType(Entry(bb, 0, k).type) /\ (LET z == s00 + Entry(bb, 0, k).offset + DL(k) IN z = tp0 \/ B(bb, z) # 0)
            THEN {<<"unterminated", Poke(bb, s00 + Entry(bb, 0, k).offset + DL(k) - 1, 1)>>} ELSE {})
      \cup (IF k > 2 THEN {<<"swapped", SwapBlocks(bb, EP(k - 1), EP(k))>>,
                           <<"duplicate tag", Set32(bb, EP(k), Entry(bb, 0, k - 1).tag)>>,
                           <<"overlap", Set32(bb, EP(k) + 8, Entry(bb, 0, k - 1).offset)>>} ELSE {})
      : k \in 2..n0}

Broken == BrokenOf(b)
n0 == Len(es) + 1
Next == /\ phase = "clean"
        /\ \/ \E m \in Broken : b' = m[2] /\ phase' = m[1] /\ es' = es
           \/ \E at \in 0..(Len(b) - 1), v \in {0, 1, 127, 128, 255} :
                 b[at + 1] # v /\ b' = Poke(b, at, v) /\ phase' = "poke" /\ es' = es
           \/ \E ds \in Dribbles : b' = EncodeDribble(R, es, ds) /\ phase' = "dribble" /\ es' = es \o ds
Spec == Init /\ [][Next]_vars

Clean   == phase = "clean" => /\ WellTyped(es) /\ HdrChk(b, 0, R) /\ HdrChkLoose(b, 0, R)
                              /\ Len(b) = HdrLen(b, 0) /\ Decode(b, 0) = es
                              /\ Len(b) % 1 = 0 /\ \A k \in 2..n0 : Entry(b, 0, k).offset % Align(Entry(b, 0, k).type) = 0
Refused == phase \notin {"clean", "poke", "dribble"} => ~HdrChk(b, 0, R)
Wider   == HdrChk(b, 0, R) => HdrChkLoose(b, 0, R)
Dribble == phase = "dribble" => /\ HdrChkLoose(b, 0, R) /\ ~HdrChk(b, 0, R) /\ Decode(b, 0) = es
\* accepted after an arbitrary change: decoding stays inside the store and yields typed items
Total   == (phase = "poke" /\ HdrChkLoose(b, 0, R)) =>
              LET d == Decode(b, 0) IN
              \A i \in 1..Len(d) : /\ Len(d[i].items) = Entry(b, 0, i + 1).count
                                   /\ \A j \in 1..Len(d[i].items) : \A x \in 1..Len(d[i].items[j]) : d[i].items[j][x] \in 0..255
\* the malformation set really has one member of each kind somewhere in the model
Kinds == {"magic", "nindex0", "nindex+1", "dsize+1", "dsize-1", "truncated", "region tag", "region type", "region offset",
          "region count", "trailer tag", "trailer type", "trailer offset", "trailer positive", "trailer count", "count 0",
          "type 0", "type 10", "tag below 100", "negative offset", "offset at trailer", "offset past store", "count too big",
          "misaligned", "string count 2", "unterminated", "swapped", "duplicate tag", "overlap"}
Full == << [tag |-> 100, type |-> TString, items |-> << <<97, 98>> >>], [tag |-> 1000, type |-> TInt32, items |-> << <<0, 0, 1, 0>> >>],
          [tag |-> 1004, type |-> TStrArr, items |-> << <<97>>, <<98>> >>] >>
ASSUME {m[1] : m \in BrokenOf(Encode(R, Full))} = Kinds
=============================================================================
