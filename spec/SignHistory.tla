----------------------------- MODULE SignHistory -----------------------------
(***************************************************************************)
(* C10: a package under sign / clear / write+re-parse operations.          *)
(* State: who performed the most recent signing since the last clear       *)
(*   signer \in Keys \cup {"none", "foreign"}                              *)
(* ("foreign": signed by a key outside Keys, as the repository's assets    *)
(* are).  Main header and payload never change.  The observation after    *)
(* every action is a function of the state.                                *)
(***************************************************************************)
EXTENDS Naturals, Sequences

CONSTANT Keys
VARIABLES signer, hist
shvars == <<signer, hist>>

Ops == [op : {"sign"}, key : Keys] \cup {[op |-> "clear", key |-> "-"], [op |-> "reparse", key |-> "-"]}

Apply(s, o) == IF o.op = "sign" THEN o.key ELSE IF o.op = "clear" THEN "none" ELSE s

Sign(k)  == signer' = k /\ hist' = Append(hist, [op |-> "sign", key |-> k])
Clear    == signer' = "none" /\ hist' = Append(hist, [op |-> "clear", key |-> "-"])
Reparse  == signer' = signer /\ hist' = Append(hist, [op |-> "reparse", key |-> "-"])

\* what must be observed in a state
Obs(s) == [ verifies    |-> [k \in Keys |-> s = k],
            signed_by   |-> IF s \in Keys THEN s ELSE "-",      \* reported key id (only claimed for Keys)
            digests_ok  |-> TRUE,
            header_same |-> TRUE,
            payload_same |-> TRUE,
            files_same  |-> TRUE ]       \* iterating the payload yields what the starting package yielded

RECURSIVE Fold(_, _)
Fold(s, h) == IF h = <<>> THEN s ELSE Fold(Apply(s, Head(h)), Tail(h))
\* expected observations after each prefix of a history
RECURSIVE Expect(_, _)
Expect(s, h) == IF h = <<>> THEN <<>> ELSE <<Obs(Apply(s, Head(h)))>> \o Expect(Apply(s, Head(h)), Tail(h))
=============================================================================
