----------------------------- MODULE Trace_Derived -----------------------------
(* Build events of the C06 scenario against BuilderDerived: the rejects are   *)
(* notes on derived behaviour, attributed to no property.                      *)
EXTENDS BuilderDerived, TraceBase
VARIABLES l, rej, nrej
vars == <<l, rej, nrej>>
Whys(r) == IF r.event # "Build" \/ "derived" \notin DOMAIN r THEN {} ELSE Notes(r.cfg, r.files, r.derived)
Init == l = 1 /\ rej = <<>> /\ nrej = 0
Next == /\ l <= N /\ l' = l + 1
        /\ LET w == Whys(Rec[l]) IN
           IF w = {} THEN UNCHANGED <<rej, nrej>>
           ELSE LET y == NoteReject(rej, nrej, l, SetToSeq(w)) IN rej' = y.rej /\ nrej' = y.nrej
Spec == Init /\ [][Next]_vars
Finished == (l = N + 1) => WriteVerdict(rej, nrej)
=============================================================================
