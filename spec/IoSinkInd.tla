------------------------------ MODULE IoSinkInd ------------------------------
(* C14, unbounded: the write_all design of MC_IoSink for a canonical string   *)
(* of ANY length L and ANY number of sink responses, as an inductive          *)
(* invariant for Apalache (TLC checks the same design for L = 6 and at most   *)
(* 8 responses).  One segment suffices: the boundaries between segments are   *)
(* invisible to the sink.                                                      *)
(*   Init => IndInv                 apalache-mc check --init=Init --inv=IndInv --length=0           *)
(*   IndInv /\ Next => IndInv'      apalache-mc check --init=IndInit --inv=IndInv --length=1        *)
(*   IndInv => Safe                 apalache-mc check --init=IndInit --inv=Safe --length=0          *)
EXTENDS Integers

VARIABLES
    \* @type: Int;
    L,
    \* @type: Int;
    pos,
    \* @type: Int;
    cur,
    \* @type: Int;
    offered,
    \* @type: Bool;
    prefixOk,
    \* @type: Bool;
    sinkFailed,
    \* @type: Str;
    result

vars == <<L, pos, cur, offered, prefixOk, sinkFailed, result>>

Init == /\ L \in Nat /\ pos = 0 /\ cur = 0 /\ offered = 0 /\ prefixOk = TRUE /\ sinkFailed = FALSE /\ result = "running"

\* the writer offers everything that is left, starting at its cursor
Offer == /\ result = "running" /\ offered = 0 /\ ~sinkFailed /\ cur < L
         /\ offered' = L - cur
         /\ prefixOk' = (prefixOk /\ cur = pos /\ pos + (L - cur) <= L)
         /\ UNCHANGED <<L, pos, cur, sinkFailed, result>>
\* the sink takes k bytes of the offer; write_all advances its cursor by exactly k
Accept == /\ offered > 0
          /\ \E k \in Int : /\ k >= 1 /\ k <= offered
                            /\ pos' = pos + k /\ cur' = cur + k
          /\ offered' = 0 /\ UNCHANGED <<L, prefixOk, sinkFailed, result>>
Interrupted == /\ offered > 0 /\ offered' = 0 /\ UNCHANGED <<L, pos, cur, prefixOk, sinkFailed, result>>
ZeroOrFail == /\ offered > 0 /\ offered' = 0 /\ sinkFailed' = TRUE /\ UNCHANGED <<L, pos, cur, prefixOk, result>>
ReturnOk  == /\ result = "running" /\ offered = 0 /\ ~sinkFailed /\ cur = L /\ result' = "ok"
             /\ UNCHANGED <<L, pos, cur, offered, prefixOk, sinkFailed>>
ReturnErr == /\ result = "running" /\ offered = 0 /\ sinkFailed /\ result' = "err"
             /\ UNCHANGED <<L, pos, cur, offered, prefixOk, sinkFailed>>
\* the defective design: the writer moves past the whole offer whatever the sink accepted
AcceptSingle == /\ offered > 0
                /\ \E k \in Int : k >= 1 /\ k <= offered /\ pos' = pos + k
                /\ cur' = L
                /\ offered' = 0 /\ UNCHANGED <<L, prefixOk, sinkFailed, result>>
Stutter == UNCHANGED vars
NextSingle == Offer \/ AcceptSingle \/ Interrupted \/ ZeroOrFail \/ ReturnOk \/ ReturnErr \/ Stutter
Next == Offer \/ Accept \/ Interrupted \/ ZeroOrFail \/ ReturnOk \/ ReturnErr \/ Stutter

IndInv == /\ L >= 0 /\ pos >= 0 /\ cur = pos /\ pos <= L
          /\ offered >= 0 /\ offered <= L - cur
          /\ prefixOk
          /\ result \in {"running", "ok", "err"}
          /\ (result = "ok" => pos = L /\ offered = 0)
          /\ (offered > 0 => result = "running")
IndInit == /\ L \in Int /\ pos \in Int /\ cur \in Int /\ offered \in Int
           /\ prefixOk \in BOOLEAN /\ sinkFailed \in BOOLEAN /\ result \in {"running", "ok", "err"}
           /\ IndInv
\* the property (IoSink!Safe)
Safe == prefixOk /\ pos <= L /\ (result = "ok" => (pos = L /\ prefixOk))
=============================================================================
