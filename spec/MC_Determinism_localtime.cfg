SPECIFICATION Spec
CONSTANTS
  Owners = {1, 2, 3}
  Design = "localtime"
PROPERTY DetAction
INVARIANT ClampInv
CHECK_DEADLOCK FALSE
