SPECIFICATION Spec
CONSTANT Keys = {"rsa4096", "rsa3072p", "ed25519", "ecdsa", "assetsub"}
INVARIANT Finished
CHECK_DEADLOCK FALSE
