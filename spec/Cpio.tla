-------------------------------- MODULE Cpio --------------------------------
(***************************************************************************)
(* The payload archive: SVR4 "newc" cpio as rpm writes it, plus rpm's      *)
(* stripped entries for packages with files > 4 GiB.                       *)
(*   newc entry     110-byte ASCII header ("070701", 13 fields of 8 hex    *)
(*                  digits), name (namesize bytes incl. NUL), zero padding *)
(*                  to a multiple of 4, data (filesize bytes), padding to 4*)
(*   stripped entry "07070X", 8 hex digits = index into the header's file  *)
(*                  list, padding to 16 bytes, data (size from the header),*)
(*                  padding to 4                                           *)
(*   trailer        a newc entry named "TRAILER!!!" with no data           *)
(* Two views: raw bytes (small archives; the specification parses them)    *)
(* and an entry table produced by the harness's scanner (any size); the    *)
(* framing arithmetic of the table is re-checked here, and on small        *)
(* archives the table must equal the specification's own parse.            *)
(***************************************************************************)
EXTENDS Naturals, Integers, Sequences, RpmNames

Pad4(n) == ((n + 3) \div 4) * 4
B(a, at) == a[at + 1]

HexVal(c) == IF c >= 48 /\ c <= 57 THEN c - 48
             ELSE IF c >= 97 /\ c <= 102 THEN c - 87
             ELSE IF c >= 65 /\ c <= 70 THEN c - 55 ELSE -1
RECURSIVE HexN(_, _, _, _)
HexN(a, at, n, acc) == IF n = 0 THEN acc
                       ELSE IF HexVal(B(a, at)) < 0 \/ acc < 0 \/ acc >= 134217728 THEN -1
                       ELSE HexN(a, at + 1, n - 1, acc * 16 + HexVal(B(a, at)))
Hex8(a, at) == HexN(a, at, 8, 0)          \* -1 if not hex or >= 2^31

IsMagic(a, at, last) == /\ at + 6 <= Len(a) /\ B(a, at) = 48 /\ B(a, at + 1) = 55 /\ B(a, at + 2) = 48
                        /\ B(a, at + 3) = 55 /\ B(a, at + 4) = 48 /\ B(a, at + 5) = last

\* parse one entry at offset `at`; sizes of stripped entries come from the header's file list
EntryAt(a, at, fileSizes) ==
    IF IsMagic(a, at, 88) THEN                         \* 07070X
        LET ix == IF at + 14 <= Len(a) THEN Hex8(a, at + 6) ELSE -1 IN
        IF ix < 0 \/ ix >= Len(fileSizes) THEN [kind |-> "bad"]
        ELSE [kind |-> "stripped", hdr_at |-> at, index |-> ix, size |-> fileSizes[ix + 1],
              data_at |-> at + 16, next |-> Pad4(at + 16 + fileSizes[ix + 1])]
    ELSE IF (IsMagic(a, at, 49) \/ IsMagic(a, at, 50)) /\ at + 110 <= Len(a) THEN
        LET mode == Hex8(a, at + 14)  size == Hex8(a, at + 54)  nsz == Hex8(a, at + 94) IN
        IF mode < 0 \/ size < 0 \/ nsz < 1 \/ at + 110 + nsz > Len(a) \/ B(a, at + 110 + nsz - 1) # 0 THEN [kind |-> "bad"]
        ELSE LET name == SubSeq(a, at + 111, at + 110 + nsz - 1)
                 dat == Pad4(at + 110 + nsz) IN
             [kind |-> IF name = S_TrailerName THEN "trailer" ELSE "newc", hdr_at |-> at, name |-> name,
              namesize |-> nsz, mode |-> mode, size |-> size, data_at |-> dat, next |-> Pad4(dat + size)]
    ELSE [kind |-> "bad"]

RECURSIVE ParseFrom(_, _, _, _)
ParseFrom(a, at, fileSizes, fuel) ==
    IF fuel = 0 THEN << [kind |-> "bad"] >>
    ELSE LET e == EntryAt(a, at, fileSizes) IN
         IF e.kind \in {"bad", "trailer"} THEN <<e>>
         ELSE IF e.next > Len(a) THEN <<e, [kind |-> "bad"]>>
         ELSE <<e>> \o ParseFrom(a, e.next, fileSizes, fuel - 1)
Parse(a, fileSizes) == ParseFrom(a, 0, fileSizes, 64)

---------------------------------------------------------------------------
(* the entry table of the harness's scanner: framing arithmetic *)
Framed(ents, total, fileSizes) ==
    /\ Len(ents) >= 1 /\ ents[1].hdr_at = 0
    /\ ents[Len(ents)].kind = "trailer"
    /\ \A i \in 1..Len(ents) :
         LET e == ents[i] IN
         /\ e.kind \in {"newc", "stripped", "trailer"}
         /\ (i < Len(ents) => e.kind # "trailer")
         /\ (e.kind = "stripped" => /\ e.index >= 0 /\ e.index < Len(fileSizes) /\ e.size = fileSizes[e.index + 1]
                                    /\ e.data_at = e.hdr_at + 16)
         /\ (e.kind # "stripped" => e.namesize = Len(e.name) + 1 /\ e.data_at = Pad4(e.hdr_at + 110 + e.namesize))
         /\ (e.kind = "trailer" => e.name = S_TrailerName /\ e.size = 0 /\ e.data_at <= total)
         /\ (i < Len(ents) => ents[i + 1].hdr_at = Pad4(e.data_at + e.size))

\* "./usr/x", "/usr/x" and "usr/x" name the same file (source packages use bare names): compare
\* names and paths relative to the root
RECURSIVE DropSlashes(_)
DropSlashes(n) == IF n # <<>> /\ n[1] = 47 THEN DropSlashes(Tail(n)) ELSE n
Relative(n) == DropSlashes(IF Len(n) >= 2 /\ n[1] = 46 /\ n[2] = 47 THEN Tail(Tail(n)) ELSE n)

\* index (1-based) of the header file an archive entry belongs to, 0 if none
RECURSIVE FindPath(_, _, _)
FindPath(files, p, i) == IF i > Len(files) THEN 0 ELSE IF Relative(files[i].path) = p THEN i ELSE FindPath(files, p, i + 1)
FileOf(e, files) == IF e.kind = "stripped" THEN e.index + 1 ELSE FindPath(files, Relative(e.name), 1)

DataEntries(ents) == SelectSeq(ents, LAMBDA e : e.kind # "trailer")

\* C09 (payload part): an archive emitted by the builder lists exactly the header's files, in header
\* order, under the names "." ++ path, with the header's sizes and modes
ArchiveOk(ents, files) ==
    LET d == DataEntries(ents) IN
    /\ Len(d) = Len(files)
    /\ \A i \in 1..Len(d) :
         /\ d[i].size = files[i].size
         /\ (d[i].kind = "newc" => d[i].name = <<46>> \o files[i].path /\ d[i].mode = files[i].mode)
         /\ (d[i].kind = "stripped" => d[i].index = i - 1)

\* leading bytes of the compressed stream for each compressor name
MagicOk(comp, m) ==
    CASE comp = "gzip"  -> Len(m) >= 2 /\ m[1] = 31 /\ m[2] = 139
      [] comp = "zstd"  -> Len(m) >= 4 /\ m[1] = 40 /\ m[2] = 181 /\ m[3] = 47 /\ m[4] = 253
      [] comp = "xz"    -> Len(m) >= 6 /\ SubSeq(m, 1, 6) = <<253, 55, 122, 88, 90, 0>>
      [] comp = "bzip2" -> Len(m) >= 3 /\ m[1] = 66 /\ m[2] = 90 /\ m[3] = 104
      [] comp = "none"  -> Len(m) >= 6 /\ SubSeq(m, 1, 5) = <<48, 55, 48, 55, 48>>
      [] OTHER -> FALSE

\* C07: what iteration must yield - one item per archive entry before the trailer, in archive order,
\* the entry's bytes under the metadata of the file it names
ExpectedItems(ents, files) ==
    LET d == DataEntries(ents) IN
    [i \in 1..Len(d) |-> [file |-> FileOf(d[i], files), size |-> d[i].size, sha |-> d[i].sha]]
=============================================================================
