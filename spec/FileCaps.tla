------------------------------ MODULE FileCaps ------------------------------
(***************************************************************************)
(* C19: the acceptor for file-capability text, transcribed from the        *)
(* property statement (cap_from_text-style clauses), over code sequences.  *)
(*                                                                         *)
(*   text    ::= ws* clause (ws+ clause)* ws*                               *)
(*   clause  ::= [names] group+        names may be omitted only when the  *)
(*                                     clause starts with '='              *)
(*   names   ::= "all" | name ("," name)*      (case-insensitive, known)   *)
(*   group   ::= op flag*              op in = + - , flag in e i p,         *)
(*                                     two operators never adjacent        *)
(* `Verdict` is "accept" or "reject" ("dontcare" is kept in the vocabulary  *)
(* of the trace specification but no text is given that verdict any more:  *)
(* the statement offers 'all' as an alternative to the name list, so a     *)
(* list that merely contains it is not a list of known capability names).  *)
(***************************************************************************)
EXTENDS Naturals, Sequences, CapNames

IsWs(c)   == c = 32 \/ (c >= 9 /\ c <= 13)
IsOp(c)   == c = 61 \/ c = 43 \/ c = 45          \* = + -
IsFlag(c) == c = 101 \/ c = 105 \/ c = 112       \* e i p
Lower(c)  == IF c >= 65 /\ c <= 90 THEN c + 32 ELSE c
LowerSeq(s) == [i \in 1..Len(s) |-> Lower(s[i])]
AllName   == <<97, 108, 108>>

RECURSIVE SplitOn(_, _, _, _)      \* split s on separator predicate code `sep`; keeps empty items
SplitOn(s, sep, i, cur) ==
    IF i > Len(s) THEN <<cur>>
    ELSE IF s[i] = sep THEN <<cur>> \o SplitOn(s, sep, i + 1, <<>>)
    ELSE SplitOn(s, sep, i + 1, Append(cur, s[i]))

RECURSIVE Words(_, _, _)           \* whitespace-separated non-empty words
Words(s, i, cur) ==
    IF i > Len(s) THEN (IF cur = <<>> THEN <<>> ELSE <<cur>>)
    ELSE IF IsWs(s[i]) THEN (IF cur = <<>> THEN <<>> ELSE <<cur>>) \o Words(s, i + 1, <<>>)
    ELSE Words(s, i + 1, Append(cur, s[i]))

RECURSIVE FirstOp(_, _)            \* index of the first operator, 0 if none
FirstOp(w, i) == IF i > Len(w) THEN 0 ELSE IF IsOp(w[i]) THEN i ELSE FirstOp(w, i + 1)

\* "accept" / "reject" / "dontcare" for a name list (non-empty text before the first operator)
NamesVerdict(ns) ==
    LET low   == LowerSeq(ns)
        items == SplitOn(low, 44, 1, <<>>)
        known == \A k \in 1..Len(items) : items[k] \in KnownCaps
        hasAll == \E k \in 1..Len(items) : items[k] = AllName
    IN IF low = AllName THEN "accept"
       ELSE IF known THEN "accept"
       ELSE "reject"        \* incl. 'all' as a member of a longer list: 'all' stands in place of the list, not inside it

SuffixOk(x) ==     \* x starts with an operator
    \A k \in 1..Len(x) :
        /\ IsOp(x[k]) \/ IsFlag(x[k])
        /\ (k > 1 /\ IsOp(x[k]) => ~IsOp(x[k-1]))

ClauseVerdict(w) ==
    LET i == FirstOp(w, 1) IN
    IF i = 0 THEN "reject"
    ELSE IF ~SuffixOk(SubSeq(w, i, Len(w))) THEN "reject"
    ELSE IF i = 1 THEN (IF w[1] = 61 THEN "accept" ELSE "reject")
    ELSE NamesVerdict(SubSeq(w, 1, i - 1))

Verdict(s) ==
    LET ws == Words(s, 1, <<>>) IN
    IF ws = <<>> THEN "reject"
    ELSE IF \E k \in 1..Len(ws) : ClauseVerdict(ws[k]) = "reject" THEN "reject"
    ELSE IF \E k \in 1..Len(ws) : ClauseVerdict(ws[k]) = "dontcare" THEN "dontcare"
    ELSE "accept"

\* canonical enumeration of token strings (same index scheme as RpmVerCmp!NthStr)
RECURSIVE Flatten(_)
Flatten(ts) == IF ts = <<>> THEN <<>> ELSE ts[1] \o Flatten(Tail(ts))
=============================================================================
