------------------------------ MODULE Trace_C12 ------------------------------
(* Each Extract event: the abstract package, the outcome of Package::extract *)
(* in a scratch jail, what changed outside the target (snapshot difference)  *)
(* and the tree found inside it.                                              *)
EXTENDS Extract, TraceBase, SequencesExt
VARIABLES l, rej, nrej
vars == <<l, rej, nrej>>

\* nodes the safe extractor's model leaves inside the target (other than the target itself)
ModelInside(pkg) == {n \in Run("safe", Fs0, pkg).fs : Inside(n.path) /\ n.path # Root}
Found(r, n) == \E k \in 1..Len(r.inside) :
                  /\ r.inside[k].path = n.path /\ r.inside[k].kind = n.kind
                  /\ (n.kind = "file" => r.inside[k].data = n.data)
                  /\ (n.kind = "link" => r.inside[k].target = n.target)
\* duplicate paths are hostile input: only containment is claimed for them
Distinct(pkg) == \A i, j \in 1..Len(pkg) : i # j => NoDots(pkg[i].comps) # NoDots(pkg[j].comps)
\* recreation is claimed for packages the builder could have produced: every stored path consists of ordinary
\* components.  Everything else is hostile input, for which the statement claims containment and no panic only.
Ordinary(pkg) == \A i \in 1..Len(pkg) : \A k \in 1..Len(pkg[i].comps) : pkg[i].comps[k] \notin {".", ".."}
\* (a header whose size fields lie about the archive is hostile as well)
Lying(r) == "lying" \in DOMAIN r /\ r.lying
ModelOk(r) ==
    /\ r.outcome \in {"ok", "err"}
    /\ r.outside_diff = <<>>                               \* Contained
    \* benign (and stored the ordinary way, base names without '/'): recreated
    /\ ((Run("safe", Fs0, r.entries).ok /\ Distinct(r.entries) /\ ~r.flat /\ Ordinary(r.entries) /\ ~Lying(r)) =>
          r.outcome = "ok" /\ \A n \in ModelInside(r.entries) : Found(r, n))

\* packages built by the library and extracted: every file, directory and link of the configuration
\* is there with content, permission bits and link target
HasEntry(r, w) == \E k \in 1..Len(r.inside) :
                     /\ r.inside[k].path = w.path /\ r.inside[k].kind = w.kind
                     /\ (w.kind = "file" => r.inside[k].sha = w.sha /\ r.inside[k].perm = w.perm)
                     /\ (w.kind = "dir" => r.inside[k].perm = w.perm)
                     /\ (w.kind = "link" => r.inside[k].target = w.target)
BuiltOk(r) == /\ r.outcome \in {"ok", "err"} /\ r.outside_diff = <<>>
              /\ (r.want # <<>> => r.outcome = "ok")          \* (a package without files has nothing to recreate)
              /\ \A i \in 1..Len(r.want) : HasEntry(r, r.want[i])

EventOk(r) == CASE r.event = "Extract" -> ModelOk(r)
                [] r.event = "ExtractBuilt" -> BuiltOk(r)
                [] OTHER -> FALSE
Init == l = 1 /\ rej = <<>> /\ nrej = 0
Next == /\ l <= N /\ l' = l + 1
        /\ IF EventOk(Rec[l]) THEN UNCHANGED <<rej, nrej>>
           ELSE LET y == NoteReject(rej, nrej, l, Rec[l].event) IN rej' = y.rej /\ nrej' = y.nrej
Spec == Init /\ [][Next]_vars
Finished == (l = N + 1) => WriteVerdict(rej, nrej)
=============================================================================
