----------------------------- MODULE MC_Builder -----------------------------
(* Consistency of the Builder specification on small configurations:       *)
(* FileList is a sorted permutation, the flag word is independent of the   *)
(* order of the setters, clamping never increases a timestamp, and the     *)
(* subsequence relation is reflexive / respects insertion anywhere.        *)
EXTENDS Builder, TLC
Dests == { <<47, 102>>, <<46, 47, 102>>, <<47, 100, 47, 102>>, <<47, 100, 47, 101, 47, 102>>, <<46, 47, 97>> }
Flags == {"doc", "config", "config_noreplace", "ghost"}
VARIABLES d1, d2, f1, f2, t
Init == d1 \in Dests /\ d2 \in Dests /\ f1 \in Flags /\ f2 \in Flags /\ t \in {<<0, 5>>, <<1, 0>>, <<2, 7>>}
Next == UNCHANGED <<d1, d2, f1, f2, t>>
Spec == Init /\ [][Next]_<<d1, d2, f1, f2, t>>
Files == << [dest |-> d1], [dest |-> d2] >>
Sorted == LET s == FileList(Files) IN
          /\ Len(s) = 2 /\ {s[1], s[2]} = {Files[1], Files[2]}
          /\ ~LexLess(NormalPath(s[2].dest), NormalPath(s[1].dest))
StylesAgree == NormalPath(<<47, 102>>) = NormalPath(<<46, 47, 102>>)
FlagsCommute == FlagWord(<<f1, f2>>) = FlagWord(<<f2, f1>>) /\ FlagWord(<<f1, f1>>) = FlagWord(<<f1>>)
NoreplaceImpliesConfig == FlagWord(<<"config_noreplace">>) = 17 /\ FlagWord(<<"config", "config_noreplace">>) = 17
Clamp == DLeq(DMin(t, <<1, 0>>), <<1, 0>>) /\ DLeq(DMin(t, <<1, 0>>), t)
X == <<9, 9, 9>>
Sub == SubSeqOf(<<d1, d2>>, <<d1, d2>>) /\ SubSeqOf(<<d1, d2>>, <<X, d1, X, d2>>) /\ (d1 # d2 => ~SubSeqOf(<<d1, d2>>, <<d2, d1>>))
=============================================================================
