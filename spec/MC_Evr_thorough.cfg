SPECIFICATION Spec
CONSTANT NameLen = 3
INVARIANTS AllReal RoundTrip Normal
CHECK_DEADLOCK FALSE
