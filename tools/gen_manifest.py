"""Regenerate /verif/MANIFEST.json from the table below (keeps it valid at all times)."""
import json
import subprocess
import sys
from pathlib import Path

V = Path(__file__).resolve().parent.parent
sys.path.insert(0, str(V / "lib"))

LEVEL = {
 "C01": ("model_checking", "TLC enumerates hand-encoded packages from the format model (Gen_Hdr: layout grid, raw entries with hostile fields, intro/lead/padding variants) for the real parser; every observation (assets, built/signed/cleared packages, seeded structure-aware mutants, generated cases) is validated by Trace_Pkg, which recomputes from the input bytes where the written bytes may differ (reserved intro bytes, signature padding) and demands re-parse/re-write fixpoint.", "3.C01"),
 "C02": ("model_checking", "verification is a state machine (Begin / Consult / Return) whose Return(ok) guard is the statement of C02; TLC explores it against an arbitrary implementation (MC) and replays the consultations logged by a recording implementation of the public Verifying trait for every generated signature-header shape x verdict pattern, plus real-key packages tampered bit-wise and by digest-consistent forgeries, and random life-cycle walks (sign / failed sign / clear / re-parse / tamper with header, payload, the recorded header digest and the OpenPGP signature packet) replayed through the composed Rpm state machine.", "3.C02"),
 "C03": ("model_checking", "the digest decision (Allowed) is stated over the abstract state of the four recorded digests; MC shows a step-machine verifier refines it on the complete table; TLC generates the table, the harness materialises every row on a hand-encoded package and re-derives the state of bit-flipped real packages with its own decoder and hashing; Trace_C03 judges every outcome.", "3.C03"),
 "C10": ("model_checking", "SignHistory state machine model-checked for all histories up to length 5; TLC generates every history with expected observations; the harness walks them as a prefix tree with the four real keys and Trace_C10 replays every observed step through the state machine.", "3.C10"),
 "C04": ("model_checking", "the header reader is an explicit state machine (Parser) whose failure transitions are model-checked for reachability and in-bounds reads; TLC generates boundary-value products per transition (Gen_Hostile) which, with every truncation / single-byte mutation of real packages, structure-aware mutants and hostile cpio payloads, are run through every read-side operation in a child process under RLIMIT_AS, alarm() and a counting allocator; the trace specification has no action for panic / abort / timeout and bounds the allocation peak.", "3.C04"),
 "C05": ("model_checking", "Trace_Pkg decodes each well-formed header independently from its raw bytes (HeaderFormat/PackageFile: accessor table) and compares every accessor and Header::get_entry_data_as_* result, and demands that a package valid by rpm's loading rules (dribble entries allowed) is readable at all; the decoder is model-checked against the specification's encoder (MC_HeaderFormat: Decode(Encode(h)) = h); inputs are assets, built packages and TLC-enumerated typed headers (every accessor tag x data type x count, triples with missing / wrongly typed members, directory indexes in and out of range).", "3.C05"),
 "C06": ("model_checking", "the read-back relation (Builder: per supplied field, file list ordered by path, flag words, clamped mtimes, order-preserving dependency subsequence) is stated in TLA+ and its algebra model-checked; seeded random configurations over the quantifier's domain are built, written, re-parsed and read through every accessor, and Trace_C06 names every field that does not read back.", "3.C06"),
 "C07": ("model_checking", "the cpio archive model (newc + stripped entries, framing, pairing by name / index) is model-checked by encode-then-parse on small archives; TLC enumerates foreign-style packages (every omitted subset, order, size residue, both formats) for Package::files(); assets, built packages for every codec / level family / size family and the large-file format via the hook are iterated; Trace_C07 checks each yielded item against the harness's scan of the independently decompressed archive, and on small archives the scan against the specification's own parse.", "3.C07"),
 "C08": ("model_checking", "recorded header / payload / uncompressed-archive digests and every file digest are compared by the trace specifications with the harness's independent recomputation (own range finding checked against the layout the specification derives, own decompression, sha2) on every built, signed and cleared package incl. MiB-range incompressible files for every codec; the hashing writer is run in front of scripted short-accepting sinks and validated by the IoSink trace specification.", "3.C08"),
 "C09": ("model_checking", "rpm's header-loading rules (HdrChk, LeadOk, signature padding) transcribed in TLA+ - and model-checked against the specification's own encoder: encoder output passes, each of 29 named malformations is refused (MC_HeaderFormat) - are evaluated by TLC on the raw bytes of every package the builder / signer emits in the run; the payload archive rules are checked by the cpio model (C07 scenario) on the same packages.", "3.C09"),
 "C11": ("model_checking", "reproducibility is an action property over a history variable (emitted[cfg]); the design-level defect (hash-set iteration order) is a TLC counterexample and its repair passes; the real builder is run 3x in-process and in 3 fresh processes (different hash seeds, TZ, cwd, environment) per configuration and Trace_C11 replays every run, also checking every timestamp (header tags, signature packet, archive entry headers) against the source date; input mtimes after the source date are varied between the runs.", "3.C11"),
 "C12": ("model_checking", "a POSIX-like file-system model with symlink resolution; the safe extractor keeps Contained for every package over a hostile alphabet while the naive one is refuted (its counterexamples are the minimal hostile packages); every model package is hand-encoded (ordinary, with the whole path as base name, and with absolute base names) and extracted by the real code in a scratch jail snapshotted before / after; benign packages must be recreated (model tree for generated ones, configuration for built ones).", "3.C12"),
 "C13": ("model_checking", "RpmVerCmp is rpm's algorithm in small-step and big-step form, model-checked against a second definition (token-key order) with antisymmetry/transitivity; the real Evr/Nevra ordering is recorded on the complete bounded domain plus seeded long strings and validated event by event by TLC.", "3.C13"),
 "C14": ("model_checking", "the sink protocol (Offer / Accept / Interrupted / Zero / Fail / Return) with its safety invariant is model-checked for the write_all design and refuted for the single-write design; the real Package::write / PackageMetadata::write run against scripted sinks with a failure at every offset and every chunking family, selected runs validated call by call by Trace_C14; parsing from chunked sources and truncation at every metadata offset.", "3.C14"),
 "C15": ("model_checking", "MC proves right-splitting unambiguous on real component values in the spec; the real Display/parse/normalised forms are recorded on the same complete bounded tuple domain, the asset NEVRAs, all compression types (in the harness's build and in a build of the library without optional features, harness-min) and seeded arbitrary strings, and validated by Trace_C15.", "3.C15"),
 "C16": ("model_checking", "layout algebra model-checked on a grid covering all residues mod 8 and discharged for all naturals by Apalache (LayoutInd); offsets reported by parsed and in-memory (built, signed, cleared, Header::clear'ed, re-written) packages are validated by Trace_Pkg against the layout derived from the written bytes' own intro fields.", "3.C16"),
 "C17": ("model_checking", "MustErr (destinations without a final file name) is stated in TLA+ and model-checked for closure; every destination over {/ . a b} up to length 6, capability texts, every codec with levels across and beyond its range (child process per case) and seeded metadata strings are run through the real builder and validated by Trace_C17 (no panic action exists in the spec).", "3.C17"),
 "C18": ("model_checking", "mode-word algebra model-checked on all 65 536 words; the real conversions are recorded for all words, all in-range negatives, all constructor arguments and all 2^32 integers (run-length encoded) and validated by Trace_C18.", "3.C18"),
 "C19": ("model_checking", "character-level acceptor transcribed from the statement; the complete domain of <= 4 (6 thorough) tokens over the quantifier's 13-token alphabet plus seeded long strings goes through from_str / new / FileOptions::caps and TLC compares each verdict.", "3.C19"),
 "C20": ("model_checking", "digit-vector conversion model-checked against the integer statement on a scaled-down base; real conversions of SystemTime and chrono DateTime (boundary windows, sub-second offsets, extremes, zones, seeded random) validated by Trace_C20 incl. order preservation on consecutive pairs.", "3.C20"),
}
NOTE = "trusted base: TLC 1.8.0 and the CommunityModules Json/IOUtils overrides; the harness projection (dumb field rendering) and its hand encoders; sha2/md-5/sha1 and codec crates called directly by the harness; cargo rebuilding /repo through the path dependency. Bounded domains as stated in the evidence `rule`."
TECH = "explicit TLA+ specification, TLC model checking + trace validation of the implementation (and TLC-generated cases replayed into it)"

NOT_YET = {
}


def main():
    import props
    claimed = sorted(p for p in LEVEL if p in props.REGISTRY)
    checks = []
    for p in claimed:
        cat, text, ref = LEVEL[p]
        checks.append({
            "property_id": p,
            "quick_cmd": f"./check {p} --tier quick",
            "thorough_cmd": f"./check {p} --tier thorough",
            "evidence_file": f"/verif/evidence/{p}.json",
            "replay_cmd_template": f"./check {p} --replay {{path}}",
            "engine": "tla-trace",
            "level_claimed": {"category": cat, "text": text, "design_ref": ref},
            "level_note": NOTE,
            "technique": TECH,
        })
    hooks_commits = [l.split()[0] for l in subprocess.run(["git", "-C", "/repo", "log", "--format=%h %s"], capture_output=True, text=True).stdout.splitlines() if " verif-hook:" in l]
    man = {
        "version": 1,
        "setup_cmd": "./setup.sh",
        "hooks": {"guard": "rpm_verif",
                  "enable": "harness/.cargo/config.toml passes `--cfg rpm_verif` (rustflags) to the whole harness build; rpm is a path dependency on /repo so it is rebuilt with the guard on",
                  "baseline_off_cmd": "cd /repo && cargo test --workspace --no-fail-fast --offline",
                  "source_commits": hooks_commits, "add_only": True},
        "engines": [{"name": "tla-trace", "path": "/verif/check", "serves_properties": claimed,
                     "kind_free_text": "python driver: cargo-builds harness/ against /repo, runs TLC (MC / GEN / TRACE) on spec/*.tla, matches known_findings.txt, writes evidence"}],
        "checks": checks,
        "notes": "All checks decide their property with the TLA+ specification in spec/ (see DESIGN.md). Exit 2 = tool error.",
        "not_applicable": [{"property_id": p, "reason": r} for p, r in sorted(NOT_YET.items()) if p not in claimed],
    }
    (V / "MANIFEST.json").write_text(json.dumps(man, indent=1) + "\n")
    print("claimed:", claimed)


main()
