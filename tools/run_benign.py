#!/usr/bin/env python3
"""Apply every behaviour-preserving change in /verif/benign (one at a time) to /repo, run the quick checks named
for it (or all twenty), undo it, and record the outcome in benign/RESULTS.json.  Any VIOLATION here is a false alarm
to investigate (or a change that was not as harmless as its author thought).  /repo must be clean and idle."""
import json
import subprocess
import sys
from pathlib import Path

V = Path(__file__).resolve().parent.parent
ALL = [f"C{i:02d}" for i in range(1, 21)]
only = [a for a in sys.argv[1:] if not a.startswith("--")]
res = {}
rf = V / "benign" / "RESULTS.json"
if rf.exists():
    res = json.loads(rf.read_text())
if subprocess.run(["git", "-C", "/repo", "status", "--porcelain", "--untracked-files=no"], capture_output=True, text=True).stdout.strip():
    sys.exit("/repo is not clean")
for d in sorted((V / "benign").iterdir()):
    if not (d / "patch.diff").exists() or (only and d.name not in only):
        continue
    meta = json.loads((d / "meta.json").read_text())
    props = ALL if "--all" in sys.argv else meta.get("checks", ALL)
    a = subprocess.run(["git", "-C", "/repo", "apply", str(d / "patch.diff")], capture_output=True, text=True)
    if a.returncode != 0:
        res[d.name] = {"applies": False, "note": a.stderr.strip()[:200]}
        continue
    out = {}
    try:
        for p in props:
            r = subprocess.run([str(V / "check"), p, "--tier", "quick"], cwd=V, capture_output=True, text=True, errors="replace")
            viol = [l for l in r.stdout.splitlines() if l.startswith("VIOLATION")]
            tool = [l for l in r.stdout.splitlines() if l.startswith("TOOL-ERROR")]
            out[p] = {"exit": r.returncode, "violations": len(viol), "first": (viol or tool or [None])[0]}
            print(d.name, p, r.returncode, len(viol), flush=True)
    finally:
        subprocess.run(["git", "-C", "/repo", "checkout", "--", "."])
    res[d.name] = {"applies": True, "checks": out, "silent": all(v["exit"] == 0 for v in out.values())}
    rf.write_text(json.dumps(res, indent=1, sort_keys=True) + "\n")
