#!/bin/bash
# usage: confirm_seeded.sh <PROP> <a|b|...> <srcdir with X.patch.diff and demo_X.rs>
# Confirms in a scratch worktree of /repo (outside /repo and /verif) that the change (1) compiles,
# (2) passes the existing suite, (3) makes the demonstration fail, and that the demonstration
# passes without it.  On success stores it as /verif/seeded/<PROP><x>/.
set -u
P=$1; X=$2; SRC=$3; DEMOFLAGS=${4:-}
WT=${WT:-/tmp/mutcheck}
LOG=${WT:-/tmp/mutcheck}_$P$X.log
if [ ! -d $WT ]; then git -C /repo worktree add --detach $WT HEAD >/dev/null 2>&1 || exit 2; fi
cd $WT && git checkout -q --detach $(git -C /repo rev-parse HEAD) && git checkout -q -- . && git clean -fdq -e target && cp /repo/Cargo.lock .
git apply $SRC/$X.patch.diff || { echo "$P$X: patch does not apply"; exit 1; }
cargo test --workspace --no-fail-fast --offline > $LOG 2>&1
PASS=$(grep -E "^test result: ok" $LOG | awk '{s+=$4} END{print s}')
FAIL=$(grep -cE "^test result: FAILED|error(\[|:)" $LOG)
cp $SRC/demo_$X.rs tests/demo_seeded.rs
RUSTFLAGS="$DEMOFLAGS" cargo test --offline --test demo_seeded > $LOG.demo_with 2>&1; RC_WITH=$?
git apply -R $SRC/$X.patch.diff
RUSTFLAGS="$DEMOFLAGS" cargo test --offline --test demo_seeded > $LOG.demo_without 2>&1; RC_WITHOUT=$?
rm -f tests/demo_seeded.rs
echo "$P$X: suite passed=$PASS failed_markers=$FAIL demo_with_patch_rc=$RC_WITH demo_without_rc=$RC_WITHOUT"
if [ "$FAIL" = "0" ] && [ $RC_WITH -ne 0 ] && [ $RC_WITHOUT -eq 0 ]; then
  D=/verif/seeded/$P$X; mkdir -p $D
  cp $SRC/$X.patch.diff $D/patch.diff; cp $SRC/demo_$X.rs $D/demo.rs
  echo "{\"suite_passed\": $PASS, \"demo_with_patch_rc\": $RC_WITH, \"demo_without_patch_rc\": $RC_WITHOUT, \"repo_head\": \"$(git -C /repo rev-parse --short HEAD)\"}" > $D/confirm.json
  exit 0
fi
exit 1
