#!/usr/bin/env python3
"""usage: keep_seeded.py <ID> <change> <needs_to_manifest> [note]  -- writes seeded/<ID>/meta.json from confirm.json"""
import json, sys
from pathlib import Path
V = Path(__file__).resolve().parent.parent
d = V / "seeded" / sys.argv[1]
c = json.loads((d / "confirm.json").read_text())
meta = {"property": sys.argv[1][:3], "change": sys.argv[2], "needs_to_manifest": sys.argv[3],
        "confirmed": dict(how="tools/confirm_seeded.sh in a scratch worktree of /repo: patch applied -> cargo test --workspace "
                              "--no-fail-fast --offline (all pass); demo as tests/demo_seeded.rs fails with the patch and passes without it", **c),
        "origin": "written by an independent sub-agent given only the property text (given only the property text and a scratch worktree)"}
if len(sys.argv) > 4:
    meta["note"] = sys.argv[4]
(d / "meta.json").write_text(json.dumps(meta, indent=1) + "\n")
