#!/usr/bin/env python3
"""Apply every seeded change in /verif/seeded to /repo (one at a time), run its property's quick check,
undo it, and record what the check said in seeded/RESULTS.json.  /repo must be clean and otherwise idle."""
import json
import os
import subprocess
import sys
from pathlib import Path

V = Path(__file__).resolve().parent.parent
only = sys.argv[1:]
res = {}
rf = V / "seeded" / "RESULTS.json"
if rf.exists():
    res = json.loads(rf.read_text())
if subprocess.run(["git", "-C", "/repo", "status", "--porcelain", "--untracked-files=no"], capture_output=True, text=True).stdout.strip():
    sys.exit("/repo is not clean")
for d in sorted((V / "seeded").iterdir()):
    if not (d / "patch.diff").exists() or (only and d.name not in only):
        continue
    meta = json.loads((d / "meta.json").read_text())
    prop = meta["property"]
    a = subprocess.run(["git", "-C", "/repo", "apply", str(d / "patch.diff")], capture_output=True, text=True)
    if a.returncode != 0:
        res[d.name] = {"property": prop, "applies": False, "note": a.stderr.strip()[:200]}
        continue
    try:
        p = subprocess.run([str(V / "check"), prop, "--tier", "quick"], cwd=V, capture_output=True, text=True, errors="replace")
    finally:
        subprocess.run(["git", "-C", "/repo", "checkout", "--", "."])
    viol = [l for l in p.stdout.splitlines() if l.startswith("VIOLATION")]
    res[d.name] = {"property": prop, "applies": True, "exit": p.returncode, "violations_reported": len(viol),
                   "first": viol[0] if viol else None, "detected": p.returncode == 1 and bool(viol)}
    print(d.name, res[d.name]["exit"], len(viol), flush=True)
    rf.write_text(json.dumps(res, indent=1, sort_keys=True) + "\n")
