#!/bin/sh
# Offline setup: build the harness against /repo and parse every specification module.
set -e
cd "$(dirname "$0")"
[ -f harness/Cargo.lock ] || cp /repo/Cargo.lock harness/Cargo.lock
(cd harness && CARGO_NET_OFFLINE=true cargo build --profile verif --offline)
for f in spec/*.tla; do
  tla-sany "$f" >/dev/null 2>&1 || { echo "SANY failed on $f"; tla-sany "$f" | tail -20; exit 1; }
done
echo setup ok
