#!/bin/sh
# Offline setup: build the harness against /repo and parse every specification module.
set -e
cd "$(dirname "$0")"
[ -f harness/Cargo.lock ] || cp /repo/Cargo.lock harness/Cargo.lock
(cd harness && CARGO_NET_OFFLINE=true cargo build --profile verif --offline 2>&1 | tail -3)
[ -f harness-min/Cargo.lock ] || cp /repo/Cargo.lock harness-min/Cargo.lock
(cd harness-min && CARGO_NET_OFFLINE=true cargo build --profile verif --offline 2>&1 | tail -3)
cd spec
for f in *.tla; do
  tla-sany "$f" >/tmp/sany.$$ 2>&1 || { echo "SANY failed on $f"; tail -20 /tmp/sany.$$; rm -f /tmp/sany.$$; exit 1; }
done
rm -f /tmp/sany.$$
echo setup ok
